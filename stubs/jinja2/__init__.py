class FileSystemLoader:
    def __init__(self, paths): self.paths = paths
class ChoiceLoader:
    def __init__(self, loaders): self.loaders = loaders
class Environment:
    def __init__(self, loader=None, autoescape=False): self.loader = loader
