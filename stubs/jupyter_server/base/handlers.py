import json, logging
from tornado import web
class JupyterHandler(web.RequestHandler):
    @property
    def base_url(self): return self.settings.get('base_url', '/')
    @property
    def log(self): return logging.getLogger('stub')
    def render_template(self, name, **ns): return json.dumps({'template': name, 'ns': ns}, default=str)
    def check_xsrf_cookie(self): pass
class APIHandler(JupyterHandler):
    def finish(self, *args, **kwargs):
        self.set_header('Content-Type', 'application/json')
        return super().finish(*args, **kwargs)
