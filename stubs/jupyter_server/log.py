def log_request(handler): pass
