def url_path_join(*pieces):
    initial = pieces[0].startswith('/'); final = pieces[-1].endswith('/')
    stripped = [s.strip('/') for s in pieces]
    result = '/'.join(s for s in stripped if s)
    if initial: result = '/' + result
    if final: result = result + '/'
    if result == '//': result = '/'
    return result
