#!/usr/bin/env python3
"""Confirm a seeded change and run checks against it.
usage: tools/seedcheck.py <seed_dir> [--no-tests] [CHECK_ID ...]
  seed_dir holds patch.diff and demo.py. A scratch worktree of /repo HEAD is created under /tmp/sc, the patch applied,
  the demo run on clean and patched trees, the pinned suite compared with BASELINE, then each check's quick tier is run with
  VERIF_REPO=<scratch>. The scratch worktree is removed afterwards."""
import os, subprocess, sys, shutil, json, time
args = sys.argv[1:]
seed = os.path.abspath(args[0]); rest = args[1:]
notests = "--no-tests" in rest
thorough = "--thorough" in rest
checks = [a for a in rest if not a.startswith("--")]
name = os.path.basename(seed.rstrip("/"))
wt = "/tmp/sc/" + name
os.makedirs("/tmp/sc", exist_ok=True)
def sh(cmd, **kw):
    return subprocess.run(cmd, shell=True, stdout=subprocess.PIPE, stderr=subprocess.STDOUT, text=True, **kw)
sh("git -C /repo worktree remove --force %s" % wt)
r = sh("git -C /repo worktree add --detach %s HEAD" % wt)
res = {"seed": name}
try:
    demo = os.path.join(seed, "demo.py")
    env = dict(os.environ, PYTHONPATH=wt, PYTHONHASHSEED="0")
    if os.path.exists(demo):
        r = sh("/venv/bin/python %s" % demo, env=env, cwd=wt); res["demo_clean"] = r.returncode
    r = sh("git -C %s apply %s/patch.diff" % (wt, seed))
    if r.returncode != 0:
        r = sh("git -C %s apply --3way %s/patch.diff" % (wt, seed))
    res["applies"] = r.returncode == 0
    if not res["applies"]:
        print(r.stdout[-500:])
    else:
        if os.path.exists(demo):
            r = sh("/venv/bin/python %s" % demo, env=env, cwd=wt); res["demo_patched"] = r.returncode
            res["demo_patched_tail"] = r.stdout.strip().splitlines()[-1:] if r.stdout.strip() else []
        if not notests:
            r = sh("python3 /verif/tools/baseline.py %s" % wt); res["suite_ok"] = r.returncode == 0; res["suite"] = r.stdout.strip().splitlines()[:3]
        for c in checks:
            t0 = time.time()
            scale = [a.split("=")[1] for a in rest if a.startswith("--scale=")]
            r = sh("./check %s %s" % (c, "thorough" if thorough else "quick"),
                   env=dict(os.environ, VERIF_REPO=wt, VERIF_BUDGET_SCALE=scale[0] if scale else "1"), cwd="/verif")
            viol = [l for l in r.stdout.splitlines() if l.startswith("VIOLATION")]
            res["check_" + c] = {"exit": r.returncode, "violations": len(viol), "first": viol[:2], "s": round(time.time() - t0, 1),
                                 "detail": [l for l in r.stdout.splitlines() if l.startswith("  clause")][:3]}
            # regression tier: keep the smallest minimised reproduction as a committed replay (must hold on the unchanged tree)
            if r.returncode == 1 and "--adopt" in rest:
                import glob
                new = sorted(glob.glob(os.path.join(wt + ".vpout", "replays", "new", c, "*.json")), key=os.path.getsize)
                dstdir = os.path.join("/verif/replays", c)
                dst = os.path.join(dstdir, "seed_%s.json" % name)
                if new and not os.path.exists(dst):
                    os.makedirs(dstdir, exist_ok=True)
                    shutil.copy(new[0], dst)
                    chk = sh("./check --replay %s" % dst, cwd="/verif")
                    if chk.returncode != 0:
                        os.makedirs("/tmp/rejected_replays", exist_ok=True)
                        shutil.move(dst, "/tmp/rejected_replays/seed_%s_%s.json" % (name, c))
                        res["check_" + c]["replay"] = "not kept (does not hold on the unchanged tree): " + chk.stdout[-600:]
                    else:
                        res["check_" + c]["replay"] = os.path.relpath(dst, "/verif")
finally:
    sh("git -C /repo worktree remove --force %s" % wt)
    shutil.rmtree(wt, ignore_errors=True)
    shutil.rmtree(wt + ".vpout", ignore_errors=True)
if "--adopt" in rest and res.get("applies") and res.get("demo_clean") == 0 and res.get("demo_patched", 0) != 0 and res.get("suite_ok", True):
    dst = "/verif/seeded/" + name
    os.makedirs(dst, exist_ok=True)
    if os.path.abspath(seed) != os.path.abspath(dst):
        shutil.copy(os.path.join(seed, "patch.diff"), dst)
        shutil.copy(demo, dst)
    notes = {}
    if os.path.exists(os.path.join(seed, "notes.json")):
        try:
            notes = json.load(open(os.path.join(seed, "notes.json")))
        except Exception:
            notes = {}
    meta_p = os.path.join(dst, "meta.json")
    meta = json.load(open(meta_p)) if os.path.exists(meta_p) else {}
    meta.update({"id": name, "property": notes.get("property", name.split("_")[0]), "summary": notes.get("summary"),
                 "needs": notes.get("needs"), "origin": "independent sub-agent given only the property text and a scratch worktree",
                 "confirmed": {"patch_applies_to_repo_HEAD": True, "demo_exit_clean_tree": res["demo_clean"],
                               "demo_exit_with_change": res["demo_patched"], "pinned_suite_matches_baseline": res.get("suite_ok"),
                               "how": "tools/seedcheck.py: scratch worktree of /repo HEAD under /tmp/sc, git apply, demo.py run with PYTHONPATH=<worktree> before and after, tools/baseline.py <worktree>"}})
    runs = meta.setdefault("checks_run", {})
    for c in checks:
        r = res["check_" + c]
        runs[c] = {"tier": "thorough" if thorough else "quick", "exit": r["exit"], "violations": r["violations"], "caught": r["exit"] == 1, "first_failure": r["detail"][:1]}
    meta["caught_by"] = sorted(c for c, r in runs.items() if r["caught"])
    json.dump(meta, open(meta_p, "w"), indent=1)
    print("adopted ->", dst)
print(json.dumps(res, indent=1))
