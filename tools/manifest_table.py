def register(reg):
    reg("C02", "property-based testing: exhaustive small-domain enumeration + Hypothesis random documents against an independent reference patcher and type-strict round trip",
        "Every pair over small alphabets (lists<=3/4, strings<=4/5, 2-key objects) is enumerated completely and thousands of random nested documents are generated; each is judged by a type-strict diff->patch round trip and by an independent patcher written from the documented format. Absence of violations is only shown for the explored domain.",
        "Trusts the reference patcher (vp/oracles/refpatch.py) and canonical JSON serialisation; generated documents are what json.loads can return (no NaN, no lone surrogates).")
