#!/usr/bin/env python3
"""Run every registered check's quick tier for several seeds on the unchanged tree; report anything that is not exit 0.
usage: tools/multiseed.py [tier] seed seed ..."""
import json, subprocess, sys, time
args = sys.argv[1:]
tier = "quick"
if args and args[0] in ("quick", "thorough"):
    tier = args.pop(0)
seeds = [int(a) for a in args] or [2, 3, 4, 5]
checks = [c["property_id"] for c in json.load(open("/verif/MANIFEST.json"))["checks"]]
only = __import__("os").environ.get("MULTISEED_ONLY")
if only:
    checks = [c for c in checks if c in only.split(",")]
bad = []
for s in seeds:
    for c in checks:
        t = time.time()
        p = subprocess.run(["./check", c, tier], cwd="/verif", env=dict(__import__("os").environ, VERIF_SEED=str(s), VERIF_OUT=__import__("os").environ.get("VERIF_OUT", "/tmp/multiseed.vpout")), capture_output=True, text=True)
        last = [l for l in p.stdout.splitlines() if l.startswith(c)][-1:] or [p.stdout[-200:]]
        print("seed=%d %s exit=%d %.0fs %s" % (s, c, p.returncode, time.time() - t, last[0]), flush=True)
        if p.returncode != 0:
            bad.append((s, c, p.returncode))
            print("\n".join(l for l in p.stdout.splitlines() if l.startswith(("VIOLATION", "  clause", "HARNESS", "INCONCLUSIVE")))[:1500], flush=True)
print("NOT OK:", bad)
