#!/venv/bin/python
import json, sys, glob, jsonschema
sch = json.load(open('/root/.vp/EVIDENCE.schema.json'))
ok = True
for p in sorted(glob.glob('/verif/evidence/*.json')):
    try:
        jsonschema.validate(json.load(open(p)), sch); print('valid', p)
    except Exception as e:
        ok = False; print('INVALID', p, str(e)[:300])
sys.exit(0 if ok else 1)
