#!/usr/bin/env python3
"""Regenerate MANIFEST.json from the table below (keeps the manifest valid at all times)."""
import json, os, sys
ROOT = os.path.dirname(os.path.dirname(os.path.abspath(__file__)))
ALL = ["C%02d" % i for i in range(1, 21)]

# id -> (category, technique, level text, level note, design ref)
CHECKS = {}
def reg(pid, technique, text, note, category="exploration", ref=None):
    CHECKS[pid] = dict(category=category, technique=technique, text=text, note=note, ref=ref or ("6/" + pid))

sys.path.insert(0, os.path.join(ROOT, "tools"))
from manifest_table import register
register(reg)

checks = []
for pid in ALL:
    if pid not in CHECKS:
        continue
    c = CHECKS[pid]
    checks.append({
        "property_id": pid,
        "quick_cmd": "./check %s quick" % pid,
        "thorough_cmd": "./check %s thorough" % pid,
        "evidence_file": "evidence/%s.json" % pid,
        "replay_cmd_template": "./check --replay {path}",
        "engine": "vp-runner",
        "level_claimed": {"category": c["category"], "text": c["text"], "design_ref": "DESIGN.md section " + c["ref"]},
        "level_note": c["note"],
        "technique": c["technique"],
    })
na = [{"property_id": p, "reason": "check not built yet in this session (planned: see DESIGN.md section 6); nothing is claimed for it"}
      for p in ALL if p not in CHECKS]
m = {
    "version": 1,
    "setup_cmd": "./setup.sh",
    "hooks": {"guard": "NBDIME_VERIF", "enable": "no hooks in jupyter/nbdime are needed: checks import the working tree with PYTHONPATH=/repo in a fresh interpreter and patch inside the harness process only",
              "baseline_off_cmd": "python3 tools/baseline.py /repo", "source_commits": [], "add_only": True},
    "engines": [{"name": "vp-runner", "path": "vp/runner.py", "serves_properties": sorted(CHECKS),
                 "kind_free_text": "Hypothesis-driven generated-input search (sharded over 16 processes, seeded from VERIF_SEED), exhaustive enumeration of small finite sub-domains, failure bucketing by root cause, structural delta-debugging shrinker, replay files"}],
    "checks": checks,
    "notes": "All checks decide by generated-input search against explicit oracles (property-based testing / fuzzing). exit 2 = harness error, never a violation. known_findings.json lists recorded and fixed defects.",
    "not_applicable": na,
}
with open(os.path.join(ROOT, "MANIFEST.json"), "w") as f:
    json.dump(m, f, indent=1)
    f.write("\n")
import jsonschema
jsonschema.validate(m, json.load(open("/root/.vp/MANIFEST.schema.json")))
print("MANIFEST.json: %d checks, %d not_applicable" % (len(checks), len(na)))
