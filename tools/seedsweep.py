#!/usr/bin/env python3
"""Re-confirm every kept seeded change on /repo HEAD and run the check(s) that should catch it (quick tier).
Writes seeded/SWEEP.md. usage: tools/seedsweep.py [-j N]"""
import glob, json, os, subprocess, sys
from concurrent.futures import ThreadPoolExecutor
jobs = int(sys.argv[sys.argv.index("-j") + 1]) if "-j" in sys.argv else 3
seeds = sorted(os.path.dirname(p) for p in glob.glob("/verif/seeded/*/meta.json"))
def run(d):
    m = json.load(open(os.path.join(d, "meta.json")))
    checks = m.get("caught_by") or [m["property"]]
    p = subprocess.run(["python3", "/verif/tools/seedcheck.py", d, "--adopt"] + checks, capture_output=True, text=True)
    try:
        res = json.loads(p.stdout[p.stdout.index("{"):])
    except Exception:
        res = {"error": p.stdout[-300:]}
    return os.path.basename(d), checks, res
with ThreadPoolExecutor(jobs) as ex:
    rows = list(ex.map(run, seeds))
lines = ["# Seed sweep on /repo HEAD %s" % subprocess.run(["git", "-C", "/repo", "log", "--format=%h", "-1"], capture_output=True, text=True).stdout.strip(), "",
         "| seed | applies | demo clean/with | suite | check -> exit (violations) |", "|---|---|---|---|---|"]
bad = 0
for name, checks, r in rows:
    cs = "; ".join("%s -> %s (%s)" % (c, r.get("check_" + c, {}).get("exit"), r.get("check_" + c, {}).get("violations")) for c in checks)
    ok = r.get("applies") and r.get("demo_clean") == 0 and r.get("demo_patched") and r.get("suite_ok") and all(r.get("check_" + c, {}).get("exit") == 1 for c in checks)
    bad += 0 if ok else 1
    lines.append("| %s | %s | %s/%s | %s | %s |%s" % (name, r.get("applies"), r.get("demo_clean"), r.get("demo_patched"), r.get("suite_ok"), cs, "" if ok else " **ATTENTION**"))
lines.append("")
lines.append("%d seeds, %d need attention" % (len(rows), bad))
open("/verif/seeded/SWEEP.md", "w").write("\n".join(lines) + "\n")
print("\n".join(lines[-12:]))
