#!/usr/bin/env python3
"""Run the repository's pinned test suite (guard off) and compare with /root/.vp/BASELINE.json stable_pass.
usage: tools/baseline.py [repo_dir]   exit 0 iff every stable_pass test passed."""
import json, os, subprocess, sys, tempfile, xml.etree.ElementTree as ET
repo = sys.argv[1] if len(sys.argv) > 1 else "/repo"
base = json.load(open("/root/.vp/BASELINE.json"))
want = set(base["stable_pass"])
with tempfile.TemporaryDirectory() as td:
    jx = os.path.join(td, "j.xml")
    env = dict(os.environ); env.pop("NBDIME_VERIF", None); env.pop("PYTHONPATH", None)
    subprocess.run(["/venv/bin/python", "-m", "pytest", "-q", "-p", "no:cacheprovider", "--timeout=900",
                    "--continue-on-collection-errors", "-n", "12", "--junitxml=" + jx], cwd=repo, env=env,
                   stdout=subprocess.DEVNULL, stderr=subprocess.DEVNULL)
    passed = set()
    for tc in ET.parse(jx).getroot().iter("testcase"):
        if not any(ch.tag in ("failure", "error", "skipped") for ch in tc):
            passed.add("%s::%s" % (tc.get("classname"), tc.get("name")))
missing = sorted(want - passed)
print("stable_pass=%d passed_now=%d missing=%d" % (len(want), len(passed), len(missing)))
for m in missing[:20]: print("  MISSING", m)
sys.exit(1 if missing else 0)
