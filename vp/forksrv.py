"""Pristine fork server: 'fresh interpreter' semantics at fork cost.

The server process imports nbdime once and never calls it.  Every job is executed in a child forked from that pristine state,
so module-level state of nbdime (differ tables, predicate tables, lru caches, function attributes, config cache) is exactly as in
a newly started interpreter.  Used by C12 (reference model) and available to others.
"""
import os
import pickle
import struct
import sys
import tempfile
import traceback


def _write(fd, obj):
    data = pickle.dumps(obj, protocol=4)
    os.write(fd, struct.pack("<Q", len(data)))
    off = 0
    while off < len(data):
        off += os.write(fd, data[off:off + 65536])


def _read(fd):
    hdr = b""
    while len(hdr) < 8:
        chunk = os.read(fd, 8 - len(hdr))
        if not chunk:
            raise EOFError("fork server pipe closed")
        hdr += chunk
    n = struct.unpack("<Q", hdr)[0]
    buf = bytearray()
    while len(buf) < n:
        chunk = os.read(fd, min(1 << 20, n - len(buf)))
        if not chunk:
            raise EOFError("fork server pipe closed")
        buf += chunk
    return pickle.loads(bytes(buf))


def run_in_fork(fn, *args):
    """Run fn(*args) in a forked child of the current process and return its (picklable) result."""
    r, w = os.pipe()
    pid = os.fork()
    if pid == 0:
        try:
            os.close(r)
            try:
                res = ("ok", fn(*args))
            except BaseException as e:
                res = ("harness_exc", "%s: %s\n%s" % (type(e).__name__, e, traceback.format_exc()))
            _write(w, res)
        finally:
            os._exit(0)
    os.close(w)
    try:
        res = _read(r)
    except EOFError:
        res = ("harness_exc", "child died without a result")
    finally:
        os.close(r)
        os.waitpid(pid, 0)
    if res[0] != "ok":
        raise RuntimeError("fork child failed: %s" % res[1])
    return res[1]


class ForkServer:
    """handler(job) is looked up by name in the server process: 'module:function'."""

    def __init__(self, preload=("nbdime", "nbdime.diffing.notebooks", "nbdime.merging.notebooks", "nbdime.nbdiffapp", "nbdime.nbmergeapp")):
        self.req_r, self.req_w = os.pipe()
        self.resp_r, self.resp_w = os.pipe()
        self.pid = os.fork()
        if self.pid == 0:
            try:
                os.close(self.req_w)
                os.close(self.resp_r)
                self._serve(preload)
            finally:
                os._exit(0)
        os.close(self.req_r)
        os.close(self.resp_w)

    def _serve(self, preload):
        import importlib
        d = tempfile.mkdtemp(prefix="vp_fs_")
        os.makedirs(os.path.join(d, "cfg"))
        os.makedirs(os.path.join(d, "cwd"))
        os.environ["JUPYTER_CONFIG_DIR"] = os.path.join(d, "cfg")
        os.environ["JUPYTER_CONFIG_PATH"] = os.path.join(d, "cfg")
        os.chdir(os.path.join(d, "cwd"))
        sys.argv[:] = ["nbdiff"]
        for m in preload:
            importlib.import_module(m)
        from .nbd import quiet
        quiet()
        while True:
            try:
                job = _read(self.req_r)
            except EOFError:
                break
            if job is None:
                break
            try:
                modname, fname = job["handler"].split(":")
                fn = getattr(importlib.import_module(modname), fname)
                res = ("ok", fn(job))
            except BaseException as e:
                res = ("harness_exc", "%s: %s\n%s" % (type(e).__name__, e, traceback.format_exc()))
            _write(self.resp_w, res)
        import shutil
        shutil.rmtree(d, ignore_errors=True)

    def call(self, job):
        _write(self.req_w, job)
        res = _read(self.resp_r)
        if res[0] != "ok":
            raise RuntimeError("fork server job failed: %s" % res[1])
        return res[1]

    def close(self):
        try:
            _write(self.req_w, None)
            os.close(self.req_w)
            os.close(self.resp_r)
            os.waitpid(self.pid, 0)
        except Exception:
            pass


_server = {}


def server():
    """The per-process pristine server; must be created before this process calls into nbdime."""
    pid = os.getpid()
    if _server.get("pid") != pid:
        _server["s"] = ForkServer()
        _server["pid"] = pid
        import atexit
        atexit.register(_server["s"].close)
    return _server["s"]
