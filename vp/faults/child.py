"""Fault-injecting child: runs the real merge command / git merge driver with ONE planned fault.

usage: python child.py <plan.json> <fired-marker-file> <entry> <argv...>
  entry = nbmerge | driver
  plan  = {"point": <name>, "call": <k>, "kind": oserror|memory|interrupt|kill}  or {} for no fault
Step functions are wrapped BY NAME IN THE MODULE THAT CALLS THEM; at the planned call the fault happens before the step runs.
Finally does sys.exit(main(argv)) exactly as the console script.
"""
import errno
import json
import os
import signal
import sys


def main():
    plan = json.load(open(sys.argv[1]))
    fired_file = sys.argv[2]
    entry = sys.argv[3]
    argv = sys.argv[4:]
    out_path = os.environ.get("VP_OUTPUT_PATH")

    import pathlib
    import nbformat
    import nbdime.nbmergeapp as app
    import nbdime.merging.notebooks as mn

    counts = {}

    def fault():
        with open(fired_file, "w") as f:
            f.write(json.dumps(plan))
        k = plan["kind"]
        if k == "oserror":
            raise OSError(errno.EIO, "injected I/O error")
        if k == "memory":
            raise MemoryError("injected")
        if k == "interrupt":
            raise KeyboardInterrupt()
        if k == "kill":
            os.kill(os.getpid(), signal.SIGKILL)
        raise RuntimeError("unknown fault kind")

    def hit(point):
        counts[point] = counts.get(point, 0) + 1
        if plan.get("point") == point and plan.get("call", 1) == counts[point]:
            fault()

    def wrap(module, name, point):
        real = getattr(module, name)

        def wrapper(*a, **k):
            hit(point)
            return real(*a, **k)
        wrapper.__name__ = name
        setattr(module, name, wrapper)

    wrap(app, "read_notebook", "read_notebook")
    wrap(mn, "diff_notebooks", "diff_notebooks")
    wrap(mn, "decide_merge_with_diff", "decide")
    wrap(mn, "apply_decisions", "apply")
    wrap(nbformat, "writes", "serialise")

    class CountingFile:
        def __init__(self, f):
            self._f = f

        def write(self, s):
            hit("write")
            return self._f.write(s)

        def __getattr__(self, n):
            return getattr(self._f, n)

        def __enter__(self):
            self._f.__enter__()
            return self

        def __exit__(self, *a):
            return self._f.__exit__(*a)

    def is_output(p):
        try:
            return out_path is not None and os.path.abspath(str(p)) == os.path.abspath(out_path)
        except Exception:
            return False

    real_path_open = pathlib.Path.open

    def path_open(self, mode="r", *a, **k):
        if is_output(self) and any(c in mode for c in "wax+"):
            hit("open_output")
            return CountingFile(real_path_open(self, mode, *a, **k))
        return real_path_open(self, mode, *a, **k)
    pathlib.Path.open = path_open

    import io
    real_io_open = io.open

    def io_open(file, mode="r", *a, **k):
        if isinstance(file, (str, bytes, os.PathLike)) and is_output(file) and any(c in mode for c in "wax+"):
            hit("open_output")
            return CountingFile(real_io_open(file, mode, *a, **k))
        return real_io_open(file, mode, *a, **k)
    io.open = io_open
    import builtins
    builtins.open = io_open

    if entry == "nbmerge":
        sys.argv[:] = ["nbmerge"] + argv
        sys.exit(app.main(argv))
    elif entry == "driver":
        from nbdime.vcs.git import mergedriver
        sys.argv[:] = ["git-nbmergedriver"] + argv
        sys.exit(mergedriver.main(argv))
    else:
        sys.exit(97)


if __name__ == "__main__":
    main()
