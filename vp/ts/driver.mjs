// Long-lived differential driver: one JSON request per line on stdin, one JSON answer per line on stdout.
// Runs the REAL TypeScript sources of <repo>/packages/nbdime/src (repo root = argv[2]).
import { createInterface } from 'node:readline';
const root = process.argv[2];
const P = await import(root + '/packages/nbdime/src/patch/index.ts');
const D = await import(root + '/packages/nbdime/src/merge/decisions.ts');
process.stdout.write(JSON.stringify({ ready: true, node: process.version }) + '\n');
const rl = createInterface({ input: process.stdin, crlfDelay: Infinity });
for await (const line of rl) {
  if (!line.trim()) continue;
  const c = JSON.parse(line);
  const r = {};
  if (c.diff !== undefined) {
    try { r.patched = P.patch(c.base, c.diff); if (r.patched === undefined) r.patched_undefined = true; }
    catch (e) { r.patch_exc = String(e && e.message || e).slice(0, 300); }
  }
  if (c.decisions !== undefined) {
    try { r.merged = D.applyDecisions(c.base, c.decisions.map(d => new D.MergeDecision(d))); }
    catch (e) { r.merge_exc = String(e && e.message || e).slice(0, 300); }
    for (const side of ['local', 'remote']) {
      try {
        const ds = D.buildDiffs(c.base, c.decisions.map(d => new D.MergeDecision(d)), side);
        r['pane_' + side] = ds === null ? c.base : P.patch(c.base, ds);
      } catch (e) { r['pane_' + side + '_exc'] = String(e && e.message || e).slice(0, 200); }
    }
  }
  process.stdout.write(JSON.stringify(r) + '\n');
}
