import { existsSync, readFileSync } from 'node:fs';
import { fileURLToPath, pathToFileURL } from 'node:url';
import path from 'node:path';
const SHIMS = { '@lumino/coreutils': 'lumino_coreutils.mjs', 'json-stable-stringify': 'jss.cjs' };
function resolveRel(fromFile, spec) {
  const base = path.resolve(path.dirname(fromFile), spec);
  for (const cand of [base + '.ts', path.join(base, 'index.ts')]) if (existsSync(cand)) return cand;
  return null;
}
const cache = new Map();
function valueExports(file) {
  if (cache.has(file)) return cache.get(file);
  const out = new Set(); cache.set(file, out);
  const src = readFileSync(file, 'utf8');
  for (const m of src.matchAll(/^export\s+(?:declare\s+)?(?:abstract\s+)?(?:async\s+)?(?:function\*?|class|const|let|var|enum|namespace)\s+([A-Za-z_$][\w$]*)/gm)) out.add(m[1]);
  for (const m of src.matchAll(/^export\s+\*\s+from\s+['"]([^'"]+)['"]/gm)) {
    const t = m[1].startsWith('.') ? resolveRel(file, m[1]) : null;
    if (t) for (const n of valueExports(t)) out.add(n);
  }
  return out;
}
export async function resolve(specifier, context, nextResolve) {
  if (SHIMS[specifier]) return { url: pathToFileURL(path.join(path.dirname(fileURLToPath(import.meta.url)), 'shims', SHIMS[specifier])).href, shortCircuit: true };
  if (specifier.startsWith('.') && context.parentURL) {
    const t = resolveRel(fileURLToPath(context.parentURL), specifier);
    if (t) return { url: pathToFileURL(t).href, shortCircuit: true };
  }
  return nextResolve(specifier, context);
}
export async function load(url, context, nextLoad) {
  if (url.endsWith('.ts')) {
    const file = fileURLToPath(url);
    let src = readFileSync(file, 'utf8');
    src = src.replace(/^import\s+\{([^}]*)\}\s+from\s+['"]([^'"]+)['"];?/gm, (all, names, spec) => {
      let keep;
      if (spec.startsWith('.')) {
        const t = resolveRel(file, spec); const ve = t ? valueExports(t) : null;
        keep = names.split(',').map(s => s.trim()).filter(Boolean).filter(n => !ve || ve.has(n.split(/\s+as\s+/)[0].replace(/^type\s+/, '')) && !n.startsWith('type '));
      } else if (SHIMS[spec]) {
        keep = names.split(',').map(s => s.trim()).filter(Boolean).filter(n => /^(JSONExt)$/.test(n));
      } else return '';
      return keep.length ? `import { ${keep.join(', ')} } from '${spec}';` : `import '${spec}';`;
    });
    src = src.replace(/^import\s+\*\s+as\s+(\w+)\s+from\s+'json-stable-stringify';?/m, "import $1 from 'json-stable-stringify';");
    return nextLoad(url, { ...context, format: 'module-typescript' }).then(r => r).catch(e => { throw e; }), { format: 'module-typescript', source: src, shortCircuit: true };
  }
  return nextLoad(url, context);
}
