module.exports = function(o, opts){ return JSON.stringify(o, null, opts && opts.space); };
