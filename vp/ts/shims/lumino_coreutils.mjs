export const JSONExt = {
  deepCopy(v) { return v === undefined ? v : JSON.parse(JSON.stringify(v)); },
  deepEqual(a, b) { return JSON.stringify(a) === JSON.stringify(b); },
};
