import { register } from 'node:module';
register('./hooks.mjs', import.meta.url);
