"""G-strat: merge strategy configurations as the command line / web tool produce them, renderer switch."""
import contextlib
import os
import shutil
import sys

from hypothesis import strategies as st

MERGE = ["inline", "use-base", "use-local", "use-remote"]
INPUT = [None, "inline", "use-base", "use-local", "use-remote"]
OUTPUT = [None, "inline", "use-base", "use-local", "use-remote", "remove", "clear-all"]
RENDERERS = ["git", "diff3", "builtin"]


def all_combos():
    """The 4 x 5 x 7 x 2 command-line combinations + the web tool's 'mergetool'."""
    out = []
    for m in MERGE:
        for i in INPUT:
            for o in OUTPUT:
                for t in (True, False):
                    out.append({"merge": m, "input": i, "output": o, "transients": t})
    out.append({"merge": "mergetool", "input": None, "output": None, "transients": True})
    return out


@st.composite
def strategy_args(draw, renderers=None):
    if draw(st.sampled_from(range(8))) == 0:
        d = {"merge": "mergetool", "input": None, "output": None, "transients": True}
    else:
        d = {"merge": draw(st.sampled_from(MERGE)), "input": draw(st.sampled_from(INPUT)),
             "output": draw(st.sampled_from(OUTPUT)), "transients": draw(st.sampled_from([True, True, False]))}
    d["renderer"] = draw(st.sampled_from(renderers or ["git", "git", "diff3", "builtin"]))
    return d


def default_args(renderer="git"):
    return {"merge": "inline", "input": None, "output": None, "transients": True, "renderer": renderer}


_parser = {}


def check_choices():
    """The live parser must accept exactly the documented choices (else the generator is stale: harness error)."""
    from nbdime.merging.notebooks import cli_conflict_strategies, cli_conflict_strategies_input, cli_conflict_strategies_output
    assert list(cli_conflict_strategies) == MERGE, cli_conflict_strategies
    assert list(cli_conflict_strategies_input) == INPUT[1:], cli_conflict_strategies_input
    assert list(cli_conflict_strategies_output) == OUTPUT[1:], cli_conflict_strategies_output


def build_args(d, extra=()):
    """argparse Namespace produced by the real nbmerge parser (mergetool: as the web server builds it)."""
    from nbdime import nbmergeapp
    if "p" not in _parser:
        check_choices()
        saved = sys.argv[:]
        sys.argv[:] = ["nbmerge"]
        try:
            _parser["p"] = nbmergeapp._build_arg_parser()
            _parser["p"].prog = "nbmerge"
        finally:
            sys.argv[:] = saved
    argv = []
    if d["merge"] != "mergetool":
        argv += ["--merge-strategy", d["merge"]]
    if d.get("input"):
        argv += ["--input-strategy", d["input"]]
    if d.get("output"):
        argv += ["--output-strategy", d["output"]]
    if not d.get("transients", True):
        argv += ["--no-ignore-transients"]
    argv += list(extra)
    args = _parser["p"].parse_args(argv + ["b", "l", "r"])
    if d["merge"] == "mergetool":
        args.merge_strategy = "mergetool"
    return args


@contextlib.contextmanager
def renderer(name):
    """Select the external text-merge / diff helper by patching the only place nbdime looks (prettyprint.which)."""
    import nbdime.prettyprint as pp
    real = shutil.which
    if name == "git":
        fake = real
    elif name in ("diff3", "diff"):
        fake = lambda cmd, *a, **k: None if cmd == "git" else real(cmd, *a, **k)
    else:
        fake = lambda cmd, *a, **k: None
    saved = pp.which
    pp.which = fake
    try:
        yield
    finally:
        pp.which = saved
