"""G-json: generic JSON documents, pairs and triples (C02, C05, C06, C11, C13).

Sound: only values json.loads can return (no NaN/inf, no lone surrogates).
Complete-ish by construction: bool/int/float collisions, heterogeneous arrays, repeated
elements (pool + replacement), strings with every separator str.splitlines honours.
"""
import copy
import itertools

from hypothesis import strategies as st

SEPS = ["\n", "\r\n", "\r", "\x0b", "\x0c", "\x1c", "\x1d", "\x1e", "\x85", "\u2028", "\u2029"]
LINE_POOL = ["a", "b", "ab", "abc", "x = 1", "x = 2", "y = x + 2", "print(x)", "", "  ", "a b c d e f g h",
             "a b c d e f g H", "the quick brown fox jumps", "the quick brown fox jumped", "åäö 中",
             "<<<<<<< local", "=======", "0", "1"]

LONG_UNITS = ["0, ", "A", "ab", "iVBORw0KGgo", "1.5, "]

scalars = st.sampled_from([None, True, False, 0, 1, 2, -1, 0.0, 1.0, 2.5, -0.5, 10 ** 12, "a", "b", "", "1", "true"])


@st.composite
def text(draw, maxlines=5, exotic=None):
    n = draw(st.integers(0, maxlines))
    if exotic is None:
        exotic = draw(st.integers(0, 2)) == 0
    seps = SEPS if exotic else ["\n", "\n", "\n", "\r\n"]
    parts = []
    for i in range(n):
        if draw(st.integers(0, 24)) == 0:
            # one very long line made of a repeated unit (a one-line array, base64 padding): 200 .. 2000 characters
            unit = draw(st.sampled_from(LONG_UNITS))
            parts.append(draw(st.sampled_from(["", "[", "x = "])) + unit * draw(st.integers(200 // len(unit), 2000 // len(unit))) + draw(st.sampled_from(["", "]", "=="])))
        else:
            parts.append(draw(st.sampled_from(LINE_POOL)))
        parts.append(draw(st.sampled_from(seps)))
    if parts and draw(st.booleans()):
        parts.pop()
    return "".join(parts)


def value(depth=3):
    if depth <= 0:
        return st.one_of(scalars, text(3))
    return st.one_of(scalars, text(4), listdoc(depth - 1), objdoc(depth - 1))


@st.composite
def listdoc(draw, depth=2, max_size=5):
    pool = draw(st.lists(value(depth), min_size=1, max_size=4))
    n = draw(st.integers(0, max_size))
    return [copy.deepcopy(pool[draw(st.integers(0, len(pool) - 1))]) for _ in range(n)]


KEYS = ["a", "b", "c", "k", "key with space", "é", "2019", "0", "3d_view"]


def objdoc(depth=2, max_size=4):
    return st.dictionaries(st.sampled_from(KEYS), value(depth), max_size=max_size)


@st.composite
def edit_text(draw, s):
    lines = s.splitlines(True)
    for _ in range(draw(st.integers(1, 3))):
        op = draw(st.sampled_from(["ins", "del", "mod", "eol", "strip_final", "append"]))
        if op == "ins" or not lines:
            i = draw(st.integers(0, len(lines)))
            lines.insert(i, draw(st.sampled_from(LINE_POOL)) + draw(st.sampled_from(SEPS[:3] + SEPS)))
        elif op == "del":
            del lines[draw(st.integers(0, len(lines) - 1))]
        elif op == "mod":
            i = draw(st.integers(0, len(lines) - 1))
            body = lines[i].rstrip("".join(SEPS))
            eol = lines[i][len(body):]
            k = draw(st.integers(0, len(body)))
            w = draw(st.integers(1, 8))
            lines[i] = draw(st.sampled_from([body[:k] + "Z" + body[k:], body[:k] + body[k + 1:], body + " #", "q" + body,
                                             body[:k] + body[k:k + w] + body[k:], body[:k] + body[k + w:],       # a run grows / shrinks
                                             draw(st.sampled_from(LINE_POOL))])) + eol
        elif op == "eol":
            i = draw(st.integers(0, len(lines) - 1))
            body = lines[i].rstrip("".join(SEPS))
            lines[i] = body + draw(st.sampled_from(SEPS))
        elif op == "strip_final":
            body = lines[-1].rstrip("".join(SEPS))
            lines[-1] = body
        else:
            lines.append(draw(st.sampled_from(LINE_POOL)))
    return "".join(lines)


TYPE_SWAPS = {True: [1, 1.0], False: [0, 0.0], 1: [True, 1.0], 0: [False, 0.0], 1.0: [1, True], 0.0: [0, False]}


@st.composite
def edit_value(draw, v, depth=3):
    """A related value of the same container type (or any scalar for scalars)."""
    if isinstance(v, str):
        return draw(edit_text(v))
    if isinstance(v, list):
        v = copy.deepcopy(v)
        for _ in range(draw(st.integers(1, 3))):
            op = draw(st.sampled_from(["ins", "del", "rep", "dup", "move", "sub", "sub", "typeswap"]))
            if op == "ins" or not v:
                v.insert(draw(st.integers(0, len(v))), draw(value(1)))
            elif op == "del":
                del v[draw(st.integers(0, len(v) - 1))]
            elif op == "rep":
                v[draw(st.integers(0, len(v) - 1))] = draw(value(1))
            elif op == "dup":
                i = draw(st.integers(0, len(v) - 1))
                v.insert(draw(st.integers(0, len(v))), copy.deepcopy(v[i]))
            elif op == "move":
                x = v.pop(draw(st.integers(0, len(v) - 1)))
                v.insert(draw(st.integers(0, len(v))), x)
            elif op == "typeswap":
                idx = [i for i, x in enumerate(v) if not isinstance(x, (str, list, dict)) and x is not None and x in TYPE_SWAPS
                       and type(x) in (bool, int, float)]
                if idx:
                    i = draw(st.sampled_from(idx))
                    v[i] = draw(st.sampled_from([c for c in TYPE_SWAPS[v[i]] if type(c) is not type(v[i])]))
            else:
                idx = [i for i, x in enumerate(v) if isinstance(x, (str, list, dict))]
                if idx and depth > 0:
                    i = draw(st.sampled_from(idx))
                    v[i] = draw(edit_value(v[i], depth - 1))
        return v
    if isinstance(v, dict):
        v = copy.deepcopy(v)
        for _ in range(draw(st.integers(1, 3))):
            op = draw(st.sampled_from(["add", "del", "rep", "sub", "sub", "typeswap"]))
            keys = sorted(v)
            if op == "add" or not keys:
                v[draw(st.sampled_from(KEYS))] = draw(value(1))
            elif op == "del":
                del v[draw(st.sampled_from(keys))]
            elif op == "rep":
                v[draw(st.sampled_from(keys))] = draw(value(1))
            elif op == "typeswap":
                ks = [k for k in keys if type(v[k]) in (bool, int, float) and v[k] in TYPE_SWAPS]
                if ks:
                    k = draw(st.sampled_from(ks))
                    v[k] = draw(st.sampled_from([c for c in TYPE_SWAPS[v[k]] if type(c) is not type(v[k])]))
            else:
                ks = [k for k in keys if isinstance(v[k], (str, list, dict))]
                if ks and depth > 0:
                    k = draw(st.sampled_from(ks))
                    v[k] = draw(edit_value(v[k], depth - 1))
        return v
    return draw(scalars)


@st.composite
def container(draw, depth=3):
    kind = draw(st.sampled_from(["list", "list", "dict", "dict", "str"]))
    if kind == "list":
        return draw(listdoc(depth))
    if kind == "dict":
        return draw(objdoc(depth))
    return draw(text(6))


@st.composite
def long_line_pair(draw):
    """Two texts sharing a line of more than 1000 characters built from a repeated unit, in which a run grows or shrinks."""
    unit = draw(st.sampled_from(LONG_UNITS))
    n = draw(st.integers(1001 // len(unit) + 1, 2400 // len(unit)))
    pre, post = draw(st.sampled_from(["", "[", "data = ["])), draw(st.sampled_from(["", "]", "=="]))
    line = pre + unit * n + post
    k, w = draw(st.integers(0, len(line))), draw(st.integers(1, 3 * len(unit)))
    line2 = draw(st.sampled_from([line[:k] + line[k:k + w] + line[k:], line[:k] + line[k + w:], line[:k] + "Z" + line[k:],
                                  pre + unit * (n + draw(st.integers(1, 3))) + post, pre + unit * (n - draw(st.integers(1, 3))) + post]))
    before, after = draw(text(2, exotic=False)), draw(text(2, exotic=False))
    if before and not before.endswith("\n"):
        before += "\n"
    eol = draw(st.sampled_from(["\n", "\n", ""])) if not after else "\n"
    a, b = before + line + eol + after, before + line2 + eol + after
    wrap = draw(st.sampled_from(["str", "str", "list", "dict"]))
    if wrap == "list":
        return ["x", a], ["x", b], "long_line"
    if wrap == "dict":
        return {"k": a, "a": 1}, {"k": b, "a": 1}, "long_line"
    return a, b, "long_line"


@st.composite
def long_list_pair(draw):
    """Two lists of about a thousand items (a column of numbers) that differ by a few insertions / deletions / replacements."""
    n = draw(st.sampled_from([995, 1001, 1001, 1040, 1200]))
    kind = draw(st.sampled_from(["ints", "mixed"]))
    a = [i * 3 % 977 for i in range(n)] if kind == "ints" else [[i % 7, "r%d" % (i % 13)] if i % 5 == 0 else i % 89 for i in range(n)]
    b = list(a)
    for _ in range(draw(st.integers(1, 3))):
        op = draw(st.sampled_from(["ins", "ins", "del", "rep"]))
        k = draw(st.integers(0, len(b) - 1))
        if op == "ins":
            b[k:k] = [draw(st.sampled_from([-1, 2.5, "new", True]))] * draw(st.integers(1, 2))
        elif op == "del":
            del b[k:k + draw(st.integers(1, 2))]
        else:
            b[k] = "replaced"
    if draw(st.booleans()):
        a, b = b, a
    wrap = draw(st.sampled_from(["list", "list", "dict"]))
    return ({"column": a, "n": len(a)}, {"column": b, "n": len(b)}, "long_list") if wrap == "dict" else (a, b, "long_list")


@st.composite
def pair(draw):
    """(a, b, relation) of equal container type."""
    if draw(st.sampled_from(range(150))) == 75:
        return draw(long_list_pair())
    if draw(st.integers(0, 24)) == 0:
        return draw(long_line_pair())
    a = draw(container())
    if draw(st.integers(0, 9)) == 0:
        # unrelated, same container type
        if isinstance(a, list):
            b = draw(listdoc(3))
        elif isinstance(a, dict):
            b = draw(objdoc(3))
        else:
            b = draw(text(6))
        return a, b, "unrelated"
    b = draw(edit_value(a))
    return a, b, "edited"


@st.composite
def triple(draw):
    base = draw(container())
    return base, draw(edit_value(base)), draw(edit_value(base))


# ---------------------------------------------------------------- finite domains for exhaustive enumeration

LIST_ALPHABET = [0, 1, True, 1.0, "a", [0], {"k": 0}]
STR_ALPHABET = ["a", "b", "\n", "\r", "\x0b"]
OBJ_VALUES = [0, 1, True, 1.0, "a", [0], {"k": 0}, "a\nb"]


def all_lists(alphabet, maxlen):
    for n in range(maxlen + 1):
        for t in itertools.product(alphabet, repeat=n):
            yield [copy.deepcopy(x) for x in t]


def all_strings(alphabet, maxlen):
    for n in range(maxlen + 1):
        for t in itertools.product(alphabet, repeat=n):
            yield "".join(t)


def all_objects(keys, values):
    opts = [None] + list(range(len(values)))
    for t in itertools.product(opts, repeat=len(keys)):
        yield {k: copy.deepcopy(values[i]) for k, i in zip(keys, t) if i is not None}
