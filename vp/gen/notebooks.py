"""G-nb / G-edit / G-triple: schema-valid v4 notebooks (minor 0-5), edit scripts, pairs and triples.

Built from the v4 JSON schema, not from nbformat.v4.new_* (those always emit 4.5 + ids).
Notebooks are produced in the form nbformat.read(..., as_version=4) yields: multi-line strings joined.
Everything is plain dict/list/str so cases are JSON-serialisable (replay files).
"""
import copy
import json
import os

from hypothesis import strategies as st

MINORS = [0, 1, 2, 3, 4, 5]

CODE_LINES = [
    "import numpy as np", "import matplotlib.pyplot as plt", "x = 1", "x = 2", "y = x + 2", "print(x)", "print(x, y)",
    "def f(a):", "    return a*2", "    return a*3", "# comment", "# another comment about the data", "plt.plot(x, y)",
    "for i in range(10):", "    pass", "", "z = f(y)", "df = pd.read_csv('data.csv')", "df = pd.read_csv('data2.csv')",
    "result = model.fit(X_train, y_train, epochs=10)", "result = model.fit(X_train, y_train, epochs=20)",
    "<<<<<<< local", "=======", ">>>>>>> remote", "||||||| base", "\\ No newline at end of file",
    "s = 'längre rad ünï 中文'", "a", "b", "ab", "%matplotlib inline", "!pip install foo", "    ", "\t",
]
MD_LINES = ["# Title", "## Section", "Some *markdown* text with a [link](http://x.y).", "Some *markdown* text with a [link](http://x.z).",
            "![img](attachment:a.png)", "![img](attachment:b.png)", "- item", "- item two", "", "$$e=mc^2$$", "Ünïcode ¶", "short"]
EOLS_PLAIN = ["\n", "\n", "\n", "\n", "\r\n", "\r"]
EOLS_EXOTIC = ["\n", "\r\n", "\r", "\x0b", "\x0c", "\x1c", "\x1d", "\x1e", "\x85", "\u2028", "\u2029"]

# valid base64 payloads >= 64 chars (the differ's base64 detection threshold), with near-identical variants
B64A = "iVBORw0KGgoAAAANSUhEUgAAAAEAAAABCAYAAAAfFcSJAAAADUlEQVR42mNkYPhfDwAChwGA60e6kgAAAABJRU5ErkJggg=="
B64B = "iVBORw0KGgoAAAANSUhEUgAAAAEAAAABCAYAAAAfFcSJAAAADUlEQVR42mNkYPhfDwAChwGA60e6kgAAAABJRU5ErkJgAA=="
B64C = "R0lGODlhAQABAIAAAAAAAP///yH5BAEAAAAALAAAAAABAAEAAAIBRAA7R0lGODlhAQABAIAAAAAAAP///yH5BAEAAAAALAAAAAAB"
B64_NL = B64A[:40] + "\n" + B64A[40:] + "\n"
B64_SHORT = "aGVsbG8gd29ybGQ="      # < 64 chars: treated as text by the differ
B64S = [B64A, B64B, B64C, B64_NL, B64_SHORT]

REPRS = ["<Figure at 0x7f1234567890>", "<Figure at 0x7fabcdef0123>", "<matplotlib.lines.Line2D at 0x10a5b3c8d>",
         "<matplotlib.lines.Line2D at 0x20b6c4d9e>", "42", "43", "array([1, 2, 3])", "array([1, 2, 4])"]

FREE_KEYS = ["a", "b", "c", "deep"] * 4 + ["constructor", "toString", "hasOwnProperty", "valueOf", "constructor"]


# unbroken runs of non-ASCII word characters, longer than 64 characters (an unpunctuated CJK sentence, print("数据" * 40))
WORD_RUNS = ["数据" * 40, "é" * 68, "αβγδ" * 20 + "abcd", "Übergrößenträger" * 5, "данные" * 12, "数据" * 33 + "+/"]


def _line(draw, pool):
    w = draw(st.sampled_from(pool))
    k = draw(st.integers(0, 7))
    if k == 2 and draw(st.integers(0, 7)) == 0:
        return draw(st.sampled_from(WORD_RUNS))
    if k == 3 and draw(st.sampled_from(range(12))) == 6:
        return w + " \x00"          # a NUL character (valid JSON; git and diff3 call such text binary)
    if k == 4 and draw(st.sampled_from(range(4))) == 2:
        # characters outside the Basic Multilingual Plane (one code point in Python, two UTF-16 code units in JavaScript)
        return draw(st.sampled_from(["## Results \U0001F389 (draft)", "## Results \U0001F389 (final)", "x = '\U0001D465' + 1", "\U0001F600 " + w, w + " \U0001F680"]))
    if k == 0:
        w = w + draw(st.sampled_from([" #1", " + 1", "  ", "x", " # TODO"]))
    elif k == 1:
        w = draw(st.sampled_from(["", "  ", "    "])) + w
    return w


@st.composite
def text(draw, maxlines=6, pool=None, exotic=None):
    pool = pool or CODE_LINES
    n = draw(st.integers(0, maxlines))
    if exotic is None:
        exotic = draw(st.integers(0, 7)) == 0
    eols = EOLS_EXOTIC if exotic else EOLS_PLAIN
    parts = []
    for _ in range(n):
        parts.append(_line(draw, pool))
        parts.append(draw(st.sampled_from(eols)))
    if n and draw(st.sampled_from(range(40))) == 20:
        # the text shows a `git diff` of files without final newline: git's own marker line, several times
        k = draw(st.integers(0, len(parts) // 2)) * 2
        parts[k:k] = ["\\ No newline at end of file", "\n"] * draw(st.integers(2, 4))
    if parts and draw(st.integers(0, 2)) == 0:
        parts.pop()   # no final newline (the usual shape of a cell source)
    return "".join(parts)


json_leaf = st.sampled_from([None, True, False, 0, 1, 2, 1.0, 2.5, "a", "b", "line\n", "", "text"])


def json_val(depth=2):
    if depth == 0:
        return json_leaf
    return st.one_of(json_leaf, st.lists(json_val(depth - 1), max_size=3),
                     st.dictionaries(st.sampled_from(["a", "b", "c", "k"]), json_val(depth - 1), max_size=3))


# values whose shape at the SAME path is a list of lists in one notebook and a list of objects in another
SHAPES = [[[1], [2]], [[1], [2, 3]], [{"a": 1}, {"a": 2}], [{"a": 1}, {"b": 2}], [[1], {"a": 1}], [1, 2], [1.0, 2], ["x", "y"],
          {"k": [[1]]}, {"k": [{"a": 1}]},
          # runs of repeated items (shrinking such a list has a common prefix and suffix that overlap)
          [0, 0, 0, 1], ["x", "y", "x", "y"], [[1], [1], [1], [2]], [{"a": 1}, {"a": 1}, {"a": 1}]]


@st.composite
def free_metadata(draw, maxkeys=2):
    d = {}
    for _ in range(draw(st.integers(0, maxkeys))):
        k = draw(st.sampled_from(FREE_KEYS))
        d[k] = copy.deepcopy(draw(st.one_of(json_val(2), st.sampled_from(SHAPES))))
    if draw(st.sampled_from(range(300))) == 150:
        d["__proto__"] = draw(json_val(1))       # an ordinary key for JSON and Python
    if draw(st.sampled_from(range(14))) == 0:
        # the committed result of an earlier conflicted merge carries nbdime's own record
        d["nbdime-conflicts"] = {"local_diff": [{"op": "add", "key": "x", "value": 1}], "remote_diff": [{"op": "add", "key": "x", "value": 2}]}
    return d


@st.composite
def cell_metadata(draw, cell_type, minor):
    d = draw(free_metadata())
    r = draw(st.integers(0, 15))
    if r == 0 and cell_type == "code":
        d["collapsed"] = draw(st.booleans())
    elif r == 1 and cell_type == "code":
        d["scrolled"] = draw(st.sampled_from([True, False, "auto"]))
    elif r == 2:
        d["tags"] = draw(st.lists(st.sampled_from(["t1", "t2", "t3", "hide"]), unique=True, max_size=3))
    elif r == 3:
        d["name"] = draw(st.sampled_from(["n1", "n2"]))
    elif r == 4 and minor >= 3:
        d["jupyter"] = {"source_hidden": draw(st.booleans())}
    elif r == 5 and cell_type == "raw":
        d["format"] = "text/x-rst"
    elif r == 6 and cell_type == "code" and minor >= 4:
        d["execution"] = {"iopub.execute_input": "2020-01-0%dT00:00:00Z" % draw(st.integers(1, 3))}
    return d


@st.composite
def nb_metadata(draw):
    d = draw(free_metadata())
    r = draw(st.integers(0, 5))
    if r == 0:
        d["kernelspec"] = {"name": draw(st.sampled_from(["python3", "ir"])), "display_name": draw(st.sampled_from(["Python 3", "R"]))}
    elif r == 1:
        d["language_info"] = {"name": "python", "version": draw(st.sampled_from(["3.8.1", "3.9.0"])),
                              "codemirror_mode": draw(st.sampled_from(["ipython", {"name": "ipython", "version": 3}]))}
    elif r == 2:
        d["kernelspec"] = {"name": "python3", "display_name": "Python 3"}
        d["language_info"] = {"name": "python"}
    return d


@st.composite
def mimebundle(draw):
    d = {}
    if draw(st.sampled_from(range(14))) == 0:
        return d            # an empty mime bundle is schema-valid
    if LONG["enabled"] and draw(st.sampled_from(range(60))) == 0:
        d["text/plain"] = draw(long_text(draw(st.sampled_from([9500, 10500]))))
    elif draw(st.integers(0, 3)) > 0:
        d["text/plain"] = draw(st.one_of(text(3), st.sampled_from(REPRS)))
    r = draw(st.integers(0, 9))
    if r == 0:
        d["text/html"] = "<b>" + draw(text(2)) + "</b>"
    elif r == 1:
        d["image/png"] = draw(st.sampled_from(B64S))
    elif r == 2:
        d["application/json"] = copy.deepcopy(draw(st.one_of(json_val(2), st.sampled_from(SHAPES))))
    elif r == 3:
        d["image/svg+xml"] = "<svg>\n" + draw(text(2)) + "</svg>"
    elif r == 4:
        d["application/vnd.custom+json"] = copy.deepcopy(draw(st.one_of(json_val(1), st.sampled_from(SHAPES))))
    elif r == 5:
        d["application/x-unknown"] = draw(st.sampled_from([B64A, B64C, "plain text payload", ""]))
    elif r == 6:
        d["application/javascript"] = draw(text(2))
    if not d:
        d["text/plain"] = draw(st.sampled_from(REPRS))
    if draw(st.sampled_from(range(6))) == 0:
        # mime types are case-insensitive; the differ lower-cases them for dispatch
        ks = sorted(k for k in d if k in MIXED_CASE)      # string-valued mimes only: the schema's JSON pattern is case-sensitive
        if ks:
            k = draw(st.sampled_from(ks))
            d[MIXED_CASE[k]] = d.pop(k)
    return d


MIXED_CASE = {"text/plain": "text/Plain", "text/html": "text/HTML", "image/png": "image/PNG", "image/svg+xml": "image/SVG+xml",
              "application/javascript": "Application/JavaScript"}


LONG = {"enabled": False}


def enable_long_texts(on=True):
    """Thorough tiers also generate stream texts beyond the differ's 1000-character compare cutoff (and mime texts beyond 10000)."""
    LONG["enabled"] = bool(on)


@st.composite
def traceback_lines(draw):
    """Frames of an error traceback; recursion errors repeat the same frames many times."""
    frames = [_line(draw, CODE_LINES) for _ in range(draw(st.integers(0, 3)))]
    if frames and draw(st.sampled_from([True, False, False])):
        frames = (frames * draw(st.integers(2, 3)))[:8]
    return frames


@st.composite
def long_text(draw, target):
    lines = []
    n = 0
    i = 0
    while n < target:
        ln = "%s  # row %d\n" % (draw(st.sampled_from(CODE_LINES[:12])), i)
        lines.append(ln)
        n += len(ln)
        i += 1
    return "".join(lines)


@st.composite
def output(draw):
    k = draw(st.sampled_from(["stream", "stream", "error", "display_data", "execute_result", "execute_result"]))
    if k == "stream":
        if LONG["enabled"] and draw(st.sampled_from(range(20))) == 0:
            return {"output_type": "stream", "name": "stdout", "text": draw(long_text(draw(st.sampled_from([900, 1100, 1500]))))}
        return {"output_type": "stream", "name": draw(st.sampled_from(["stdout", "stdout", "stderr"])), "text": draw(text(4))}
    if k == "error":
        return {"output_type": "error", "ename": draw(st.sampled_from(["ValueError", "KeyError"])),
                "evalue": draw(st.sampled_from(["bad", "worse", ""])),
                "traceback": draw(traceback_lines())}
    o = {"output_type": k, "data": draw(mimebundle()), "metadata": draw(free_metadata(1))}
    if k == "execute_result":
        o["execution_count"] = draw(st.sampled_from([None, 1, 2, 3]))
    return o


@st.composite
def attachments(draw):
    return draw(st.dictionaries(st.sampled_from(["a.png", "b.png", "LOCAL_a.png"]),
                                st.one_of(st.fixed_dictionaries({"image/png": st.sampled_from(B64S[:3])}),
                                          st.fixed_dictionaries({"image/png": st.sampled_from(B64S[:3])}),
                                          st.fixed_dictionaries({"image/PNG": st.sampled_from(B64S[:3])})), max_size=2))


@st.composite
def cell(draw, minor, cid):
    ct = draw(st.sampled_from(["code", "code", "code", "markdown", "markdown", "raw"]))
    pool = CODE_LINES if ct == "code" else MD_LINES
    c = {"cell_type": ct, "metadata": draw(cell_metadata(ct, minor)), "source": draw(text(5, pool))}
    if ct == "code":
        c["execution_count"] = draw(st.sampled_from([None, None, 1, 2, 3]))
        c["outputs"] = [draw(output()) for _ in range(draw(st.sampled_from([0, 0, 1, 1, 2, 3])))]
    elif draw(st.integers(0, 3)) == 0:
        c["attachments"] = draw(attachments())
    if minor >= 5:
        c["id"] = cid
    return c


ID_STYLES = ["short", "short", "uuid", "max"]
_style = {"cur": "short"}


def _styled(cid):
    """Same id in another realistic spelling: JupyterLab writes 36-char uuids; the schema allows up to 64 chars."""
    if _style["cur"] == "uuid":
        h = "%08x" % (abs(hash_str(cid)) % (16 ** 8))
        return ("%s-%s-4%s-a%s-%s" % (h, h[:4], h[1:4], h[2:5], (h + h)[:12]))[:36 - len(cid) - 1] + "-" + cid
    if _style["cur"] == "max":
        return (cid + "_" + "x" * 64)[:64]
    return cid


def hash_str(s):
    v = 0
    for ch in s:
        v = (v * 131 + ord(ch)) % (2 ** 61 - 1)
    return v


def _fresh_id(used, stem):
    i = 0
    while True:
        cid = _styled("%s%d" % (stem, i))
        if cid not in used:
            used.add(cid)
            return cid
        i += 1


@st.composite
def notebook(draw, minor=None, max_cells=5, min_cells=0):
    if minor is None:
        minor = draw(st.sampled_from([0, 1, 2, 3, 4, 4, 5, 5, 5]))
    n = draw(st.integers(min_cells, max_cells))
    used = set()
    cells = []
    _style["cur"] = draw(st.sampled_from(ID_STYLES)) if minor >= 5 else "short"
    for i in range(n):
        if cells and draw(st.integers(0, 9)) == 0:
            c = copy.deepcopy(cells[draw(st.integers(0, len(cells) - 1))])   # repeated cell (alignment ambiguity)
            if minor >= 5:
                c["id"] = _fresh_id(used, "c")
        else:
            c = draw(cell(minor, _fresh_id(used, "c") if minor >= 5 else None))
        cells.append(c)
    return {"nbformat": 4, "nbformat_minor": minor, "metadata": draw(nb_metadata()), "cells": cells}


# ----------------------------------------------------------------------------- edits

@st.composite
def edit_text(draw, s, pool=None):
    pool = pool or CODE_LINES
    lines = s.splitlines(True)
    for _ in range(draw(st.integers(1, 3))):
        op = draw(st.sampled_from(["ins", "del", "mod", "mod", "append_nonl", "eol", "del_and_strip_next"]))
        if op == "del_and_strip_next" and len(lines) >= 3:
            # drop a line and the leading characters of the line after it (an `if` header removed, its body de-dented), not at the top
            i = draw(st.integers(1, len(lines) - 2))
            nxt = lines[i + 1]
            cut = (len(nxt) - len(nxt.lstrip(" "))) or min(draw(st.integers(1, 4)), max(1, len(nxt.rstrip("\r\n")) - 1))
            lines[i:i + 2] = [nxt[cut:]]
        elif op == "ins" or op == "del_and_strip_next" or not lines:
            i = draw(st.integers(0, len(lines)))
            if i == len(lines) and lines and not lines[-1].endswith(("\n", "\r")):
                lines[-1] += "\n"
            lines.insert(i, _line(draw, pool) + "\n")
        elif op == "del":
            del lines[draw(st.integers(0, len(lines) - 1))]
        elif op == "mod":
            i = draw(st.integers(0, len(lines) - 1))
            body = lines[i].rstrip("\r\n")
            eol = lines[i][len(body):]
            lines[i] = draw(st.sampled_from([body + " # edited", "new " + body, body[:len(body) // 2], body.upper(),
                                             _line(draw, pool)])) + eol
        elif op == "append_nonl":
            if lines and not lines[-1].endswith(("\n", "\r")):
                lines[-1] += "\n"
            lines.append(_line(draw, pool))
        else:
            i = draw(st.integers(0, len(lines) - 1))
            body = lines[i].rstrip("\r\n")
            lines[i] = body + draw(st.sampled_from(["\n", "\r\n", ""] if i == len(lines) - 1 else ["\n", "\r\n"]))
    return "".join(lines)


@st.composite
def edit_json(draw, v):
    """Small edit of a JSON metadata value, including type-only changes."""
    swaps = {True: 1, False: 0, 1: True, 0: False, 1.0: 1, 2: 2.0}
    if isinstance(v, dict):
        v = copy.deepcopy(v)
        op = draw(st.sampled_from(["add", "del", "sub", "rep"]))
        keys = sorted(v)
        if op == "add" or not keys:
            v[draw(st.sampled_from(FREE_KEYS))] = copy.deepcopy(draw(st.one_of(json_val(1), st.sampled_from(SHAPES))))
        elif op == "del":
            del v[draw(st.sampled_from(keys))]
        elif op == "rep":
            v[draw(st.sampled_from(keys))] = copy.deepcopy(draw(st.one_of(json_val(1), st.sampled_from(SHAPES))))
        else:
            k = draw(st.sampled_from(keys))
            v[k] = draw(edit_json(v[k]))
        return v
    if isinstance(v, list):
        v = copy.deepcopy(v)
        op = draw(st.sampled_from(["ins", "del", "sub"]))
        if op == "ins" or not v:
            v.insert(draw(st.integers(0, len(v))), copy.deepcopy(draw(json_val(1))))
        elif op == "del":
            del v[draw(st.integers(0, len(v) - 1))]
        else:
            i = draw(st.integers(0, len(v) - 1))
            v[i] = draw(edit_json(v[i]))
        return v
    if isinstance(v, str):
        return v + draw(st.sampled_from(["x", "\nmore", " "]))
    if type(v) in (bool, int, float) and v in swaps and draw(st.booleans()):
        return swaps[v]
    return draw(json_leaf)


def _edit_cell_metadata(draw, c, minor):
    md = c["metadata"]
    typed = {"collapsed", "scrolled", "tags", "name", "jupyter", "format", "execution"}
    free = {k: v for k, v in md.items() if k not in typed}
    if draw(st.integers(0, 3)) == 0:
        c["metadata"] = draw(cell_metadata(c["cell_type"], minor))
    else:
        new = draw(edit_json(free))
        c["metadata"] = {**{k: v for k, v in md.items() if k in typed}, **{k: v for k, v in new.items() if k not in typed}}


@st.composite
def edit_output(draw, o):
    o = copy.deepcopy(o)
    t = o["output_type"]
    if t == "stream":
        if draw(st.integers(0, 4)) == 0:
            o["name"] = "stderr" if o["name"] == "stdout" else "stdout"
        else:
            o["text"] = draw(edit_text(o["text"]))
    elif t == "error":
        w = draw(st.sampled_from(["evalue", "tb", "ename"]))
        if w == "evalue":
            o["evalue"] = o["evalue"] + " changed"
        elif w == "ename":
            o["ename"] = "TypeError"
        else:
            tb = list(o["traceback"])
            op = draw(st.sampled_from(["append", "delete", "insert", "delete"]))
            if op == "delete" and tb:
                del tb[draw(st.integers(0, len(tb) - 1))]
            elif op == "insert" and tb:
                tb.insert(draw(st.integers(0, len(tb))), draw(st.sampled_from(tb)))
            else:
                tb.append(_line(draw, CODE_LINES))
            o["traceback"] = tb
    else:
        w = draw(st.sampled_from(["data", "data", "bundle", "meta", "ec"]))
        if w == "data" and not o["data"]:
            o["data"] = draw(mimebundle())
        elif w == "data":
            d = o["data"]
            k = draw(st.sampled_from(sorted(d)))
            v = d[k]
            if isinstance(v, str):
                if v in B64S:
                    d[k] = draw(st.sampled_from(B64S))
                elif v in REPRS:
                    d[k] = draw(st.sampled_from(REPRS))
                else:
                    d[k] = draw(edit_text(v))
            else:
                d[k] = draw(edit_json(v))
        elif w == "bundle":
            o["data"] = draw(mimebundle())
        elif w == "meta":
            o["metadata"] = draw(edit_json(o["metadata"]))
        elif "execution_count" in o:
            o["execution_count"] = draw(st.sampled_from([None, 1, 2, 7]))
        else:
            o["metadata"] = draw(edit_json(o["metadata"]))
    return o


CELL_EDITS = ["source", "source", "source", "outputs", "outputs", "metadata", "ec", "attach", "type", "rerun", "toggle", "clear_source"]


@st.composite
def edit_cell(draw, c, minor, kinds=None, n_edits=None):
    c = copy.deepcopy(c)
    what = draw(st.lists(st.sampled_from(kinds or CELL_EDITS), min_size=n_edits or 1, max_size=n_edits or 2))
    pool = CODE_LINES if c["cell_type"] == "code" else MD_LINES
    for w in what:
        if w == "source":
            c["source"] = draw(edit_text(c["source"], pool))
        elif w == "clear_source":
            c["source"] = ""          # the user emptied the cell
        elif w == "metadata":
            _edit_cell_metadata(draw, c, minor)
        elif w == "rerun":
            # a plain re-execution: only transient fields change (cell and execute_result execution counts)
            if c["cell_type"] == "code":
                ec = draw(st.sampled_from([11, 12, 13]))
                c["execution_count"] = ec
                for o in c["outputs"]:
                    if o["output_type"] == "execute_result":
                        o["execution_count"] = ec
            else:
                c["metadata"]["collapsed"] = not c["metadata"].get("collapsed", False) if isinstance(c["metadata"].get("collapsed", False), bool) else True
        elif w == "toggle":
            if c["cell_type"] == "code":
                k = draw(st.sampled_from(["collapsed", "scrolled"]))
                c["metadata"][k] = not c["metadata"].get(k) if isinstance(c["metadata"].get(k), bool) else True
            else:
                c["source"] = draw(edit_text(c["source"], pool))
        elif w == "ec":
            if c["cell_type"] == "code":
                c["execution_count"] = draw(st.sampled_from([None, 1, 2, 5, 9]))
            else:
                c["source"] = draw(edit_text(c["source"], pool))
        elif w == "outputs":
            if c["cell_type"] != "code":
                c["source"] = draw(edit_text(c["source"], pool))
                continue
            outs = c["outputs"]
            op = draw(st.sampled_from(["clear", "append", "replace", "mod", "mod", "del", "insert"]))
            if op == "clear":
                c["outputs"] = []
            elif op == "append" or not outs:
                outs.append(draw(output()))
            elif op == "insert":
                outs.insert(draw(st.integers(0, len(outs))), draw(output()))
            elif op == "replace":
                c["outputs"] = [draw(output()) for _ in range(draw(st.integers(1, 2)))]
            elif op == "del":
                del outs[draw(st.integers(0, len(outs) - 1))]
            else:
                i = draw(st.integers(0, len(outs) - 1))
                outs[i] = draw(edit_output(outs[i]))
        elif w == "attach":
            if c["cell_type"] == "code":
                c["source"] = draw(edit_text(c["source"], pool))
            else:
                op = draw(st.sampled_from(["new", "drop", "change"]))
                if op == "drop":
                    c.pop("attachments", None)
                elif op == "new" or "attachments" not in c:
                    c["attachments"] = draw(attachments())
                elif op == "change" and c["attachments"] and draw(st.booleans()):
                    # same file name, other renditions: a mime type is added / dropped / swapped
                    a = c["attachments"]
                    k = draw(st.sampled_from(sorted(a)))
                    bundle = dict(a[k])
                    w = draw(st.sampled_from(["add", "swap", "drop"]))
                    if w == "add" or not bundle:
                        bundle[draw(st.sampled_from(["image/jpeg", "image/svg+xml", "text/plain"]))] = draw(st.sampled_from([B64C, "<svg></svg>", "alt text"]))
                    elif w == "swap":
                        old = sorted(bundle)[0]
                        bundle[draw(st.sampled_from([m for m in ("image/jpeg", "image/gif", "image/png") if m != old]))] = bundle.pop(old)
                    elif len(bundle) > 1:
                        del bundle[sorted(bundle)[-1]]
                    a[k] = bundle
                else:
                    a = c["attachments"]
                    k = draw(st.sampled_from(["a.png", "b.png", "c.png"]))
                    mk = sorted(a[k])[0] if k in a and a[k] else "image/png"
                    a[k] = {mk: draw(st.sampled_from(B64S[:3]))}
        elif w == "type":
            newt = draw(st.sampled_from([t for t in ("code", "markdown", "markdown", "raw") if t != c["cell_type"]]))
            if newt != c["cell_type"]:
                keep = {k: c[k] for k in ("id", "source") if k in c}
                c = {"cell_type": newt, "metadata": {k: v for k, v in c["metadata"].items() if k in FREE_KEYS or k == "__proto__"}, **keep}
                if newt == "code":
                    c["execution_count"] = None
                    c["outputs"] = []
    return c


def _ids(nb):
    return {c["id"] for c in nb["cells"] if "id" in c}


def set_minor(nb, minor, tag="m"):
    """Change the declared minor, adding / dropping ids so the notebook stays schema-valid."""
    old = nb["nbformat_minor"]
    nb["nbformat_minor"] = minor
    used = _ids(nb)
    for c in nb["cells"]:
        if minor >= 5 and "id" not in c:
            c["id"] = _fresh_id(used, tag)
        elif minor < 5:
            c.pop("id", None)
        md = c["metadata"]
        if minor < 3:
            md.pop("jupyter", None)
        if minor < 4:
            md.pop("execution", None)
    return nb


NB_OPS = ["edit", "edit", "edit", "edit", "ins", "del", "move", "dup", "meta", "minor"]
NB_OPS_DUPID = NB_OPS + ["dup_same_id"]


@st.composite
def edit_notebook(draw, nb, tag, max_steps=4, ops=None, min_steps=0, cell_kinds=None):
    nb = copy.deepcopy(nb)
    cells = nb["cells"]
    used = _ids(nb)
    for j in range(draw(st.integers(min_steps, max_steps))):
        minor = nb["nbformat_minor"]
        op = draw(st.sampled_from(ops or NB_OPS))
        if op == "meta":
            typed = {"kernelspec", "language_info"}
            if draw(st.integers(0, 3)) == 0:
                nb["metadata"] = draw(nb_metadata())
            else:
                free = {k: v for k, v in nb["metadata"].items() if k not in typed}
                new = draw(edit_json(free))
                nb["metadata"] = {**{k: v for k, v in nb["metadata"].items() if k in typed},
                                  **{k: v for k, v in new.items() if k not in typed}}
        elif op == "minor":
            set_minor(nb, draw(st.sampled_from(MINORS)), tag + "m")
            used = _ids(nb)
        elif op == "ins" or not cells:
            c = draw(cell(minor, _fresh_id(used, tag + "n") if minor >= 5 else None))
            cells.insert(draw(st.integers(0, len(cells))), c)
        elif op == "edit":
            i = draw(st.integers(0, len(cells) - 1))
            cells[i] = draw(edit_cell(cells[i], minor, cell_kinds))
        elif op == "del":
            del cells[draw(st.integers(0, len(cells) - 1))]
        elif op == "move":
            c = cells.pop(draw(st.integers(0, len(cells) - 1)))
            cells.insert(draw(st.integers(0, len(cells))), c)
        elif op in ("dup", "dup_same_id"):
            i = draw(st.integers(0, len(cells) - 1))
            c = copy.deepcopy(cells[i])
            if "id" in c and op == "dup":
                c["id"] = _fresh_id(used, tag + "d")
            cells.insert(draw(st.integers(0, len(cells))), c)
    return nb


def _numeric_leaves(x, path=()):
    if isinstance(x, dict):
        for k, v in x.items():
            yield from _numeric_leaves(v, path + (k,))
    elif isinstance(x, list):
        for i, v in enumerate(x):
            yield from _numeric_leaves(v, path + (i,))
    elif type(x) in (bool, int, float) and x in (0, 1, 2):
        yield path


@st.composite
def type_only_edit(draw, nb):
    """A copy of nb that differs ONLY in the JSON type of 1-2 values (1 -> 1.0 / true ...) inside metadata or JSON outputs."""
    nb = copy.deepcopy(nb)
    if not nb["metadata"].get("vp_n") and not list(_numeric_leaves(nb["metadata"])):
        nb["metadata"]["vp_n"] = draw(st.sampled_from([0, 1, 2]))
    spots = [("metadata",) + p for p in _numeric_leaves(nb["metadata"])]
    for ci, c in enumerate(nb["cells"]):
        spots += [("cells", ci, "metadata") + p for p in _numeric_leaves({k: v for k, v in c["metadata"].items()
                                                                          if k not in ("collapsed", "scrolled", "jupyter")})]
        for oi, o in enumerate(c.get("outputs", [])):
            if "metadata" in o:
                spots += [("cells", ci, "outputs", oi, "metadata") + p for p in _numeric_leaves(o["metadata"])]
    swaps = {0: [0.0, False], 1: [1.0, True], 2: [2.0]}
    for path in draw(st.lists(st.sampled_from(spots), min_size=1, max_size=2, unique=True)):
        t = nb
        for p in path[:-1]:
            t = t[p]
        v = t[path[-1]]
        t[path[-1]] = draw(st.sampled_from([c for c in swaps[v] if type(c) is not type(v)] or swaps[v]))
    return nb


_ONE_IN_TEN = [True] + [False] * 9


@st.composite
def very_long_line_pair(draw, a):
    """A gets a cell whose source / stream text / html output holds one line of 3 100 - 4 500 characters; B edits a few characters of it
    and (mostly) changes how the line ends: CRLF -> LF, a final line without newline that is followed by more lines in B, a trailing
    newline added or removed."""
    unit = draw(st.sampled_from(["{'x': 1.5, 'y': [1, 2, 3]}, ", "<td class=\"c\">1.5</td>", "0.125, "]))
    line = draw(st.sampled_from(["data = [", "<tr>", ""])) + unit * draw(st.integers(3100 // len(unit) + 1, 4500 // len(unit)))
    edited = line.replace("1.5" if "1.5" in line else "0.125", "2.75", draw(st.integers(1, 3)))
    how = draw(st.sampled_from(["crlf_to_lf", "unterminated_then_more", "newline_added", "newline_removed", "same", "lf_to_crlf"]))
    ta, tb = {"crlf_to_lf": ("before\r\n%s\r\nafter\r\n", "before\n%s\nafter\n"), "lf_to_crlf": ("before\n%s\nafter\n", "before\r\n%s\r\nafter\r\n"),
              "unterminated_then_more": ("before\n%s", "before\n%s\n<p>done</p>\n"), "newline_added": ("%s", "%s\n"),
              "newline_removed": ("before\n%s\n", "before\n%s"), "same": ("before\n%s\nafter\n", "before\n%s\nafter\n")}[how]
    where = draw(st.sampled_from(["source", "stream", "html"]))
    minor = a["nbformat_minor"]
    c = {"cell_type": "code", "metadata": {}, "source": "render()", "execution_count": 1, "outputs": []}
    if minor >= 5:
        c["id"] = _fresh_id(_ids(a), "long")
    pos = draw(st.integers(0, len(a["cells"])))
    a["cells"].insert(pos, c)
    b = copy.deepcopy(a)
    for nb_, t, ln in ((a, ta, line), (b, tb, edited)):
        cc = nb_["cells"][pos]
        if where == "source":
            cc["source"] = t % ln
        elif where == "stream":
            cc["outputs"] = [{"output_type": "stream", "name": "stdout", "text": t % ln}]
        else:
            cc["outputs"] = [{"output_type": "display_data", "data": {"text/html": t % ln, "text/plain": "<table>"}, "metadata": {}}]
    return a, b, "very_long_line"


@st.composite
def pair(draw, max_cells=5, dup_ids=False):
    """(A, B, relation). dup_ids: allow 'duplicate cell keeping its id' (schema-valid; nbformat would re-id it on read)."""
    a = draw(notebook(max_cells=max_cells))
    if draw(st.sampled_from(_ONE_IN_TEN)):
        return a, draw(notebook(max_cells=max_cells)), "unrelated"
    if draw(st.sampled_from(range(80))) == 40:
        return draw(very_long_line_pair(a))
    if draw(st.sampled_from(range(14))) == 7:
        # B differs from A only in the JSON type of a value or two (a grade of 2 points stored as 2.0, a 0/1 flag turned into a boolean)
        if a["cells"]:
            a["cells"][draw(st.sampled_from(range(len(a["cells"]))))]["metadata"]["points"] = draw(st.sampled_from([0, 1, 2]))
        return a, draw(type_only_edit(a)), "type_only"
    return a, draw(edit_notebook(a, "B", max_steps=5, min_steps=1, ops=NB_OPS_DUPID if dup_ids else None)), "edited"


# ----------------------------------------------------------------------------- triples

@st.composite
def _forced_conflict(draw, base):
    """Local and remote both touch the same cell (shapes the list merger switches on)."""
    l, r = copy.deepcopy(base), copy.deepcopy(base)
    minor = base["nbformat_minor"]
    n = len(base["cells"])
    shape = draw(st.sampled_from(["del_vs_edit", "edit_vs_del", "both_edit_source", "both_edit_outputs", "both_edit_meta",
                                  "both_insert_same_pos", "both_insert_similar", "both_insert_runs", "both_insert_runs", "insert_next_to_edit", "insert_next_to_del",
                                  "both_append_nonl", "both_attach", "both_attach_leftover", "same_insert_next_line_edit", "same_insert_next_line_edit", "both_add_outputs_shared", "both_add_outputs_shared", "attach_del_vs_edit", "out_insert_vs_change", "out_insert_vs_change", "same_output_line_small_edits", "same_output_line_small_edits", "both_replace_sub", "both_replace_sub", "both_replace_sub", "both_edit_text_with_nul", "rerun_print_differs_result_same", "rerun_print_differs_result_same", "both_edit_tags", "both_edit_tags", "both_nbmeta", "both_minor", "both_del", "both_ec", "both_change_id",
                                  "both_same_edit", "both_edit_same_output", "both_edit_same_output", "transient_meta", "type_vs_edit", "type_vs_edit", "type_vs_edit", "both_rerun", "both_rerun", "both_rerun", "both_rerun", "two_outputs", "two_outputs", "both_insert_block"]))
    usedl, usedr = _ids(l), _ids(r)
    if shape == "both_insert_runs":
        # both sides insert a RUN of cells at one position: unrelated leading cells (different counts on the two sides),
        # then a pair of similar-but-not-identical cells, optionally identical trailing cells
        pos = draw(st.integers(0, n))

        def fresh(used, stem):
            return draw(cell(minor, _fresh_id(used, stem) if minor >= 5 else None))
        nl, nr = draw(st.sampled_from([(1, 2), (1, 2), (2, 1), (2, 1), (1, 1), (0, 1), (1, 0), (2, 2), (1, 3), (0, 2)]))
        lead_l = [fresh(usedl, "Ln") for _ in range(nl)]
        lead_r = [fresh(usedr, "Rn") for _ in range(nr)]
        sim_l = fresh(usedl, "Ls")
        sim_l["source"] = (sim_l["source"] or "") + "shared_line_one = 1\nshared_line_two = 2\nshared_line_three = 3\n"
        sim_r = draw(edit_cell(sim_l, minor, ["source"], n_edits=1))
        if "id" in sim_r:
            sim_r["id"] = _fresh_id(usedr, "Rs")
        tail = [fresh(usedl, "Lt")] if draw(st.sampled_from([True, False, False])) else []
        l["cells"][pos:pos] = lead_l + [sim_l] + copy.deepcopy(tail)
        r["cells"][pos:pos] = lead_r + [sim_r] + copy.deepcopy(tail)
        return l, r, shape
    if n == 0 or shape in ("both_insert_same_pos", "both_insert_similar"):
        i = draw(st.integers(0, n))
        cl = draw(cell(minor, _fresh_id(usedl, "Ln") if minor >= 5 else None))
        if shape == "both_insert_similar":
            cr = draw(edit_cell(cl, minor))
            if "id" in cr:
                cr["id"] = _fresh_id(usedr, "Rn") if draw(st.booleans()) else cl["id"]
        else:
            cr = draw(cell(minor, _fresh_id(usedr, "Rn") if minor >= 5 else None))
        l["cells"].insert(i, cl)
        r["cells"].insert(i, cr)
        return l, r, shape
    i = draw(st.integers(0, n - 1))
    code_idx = [k for k, x in enumerate(base["cells"]) if x["cell_type"] == "code"]
    if code_idx and shape in ("rerun_print_differs_result_same", "both_add_outputs_shared", "out_insert_vs_change", "same_output_line_small_edits", "both_edit_outputs", "both_ec", "both_edit_same_output", "transient_meta", "type_vs_edit", "both_rerun", "two_outputs"):
        i = draw(st.sampled_from(code_idx))      # shapes about outputs / execution counts need a code cell
    c = base["cells"][i]
    dve = draw(st.sampled_from([None, None, ["source", "rerun"], ["source", "toggle"], ["rerun"], ["rerun", "toggle"], ["source", "outputs"]]))
    if shape in ("del_vs_edit", "edit_vs_del") and c["cell_type"] == "code" and draw(st.sampled_from([True, False, False])):
        # edit-and-rerun against a deletion: source edited AND one line of a multi-line output text changed in place
        o = {"output_type": "stream", "name": "stdout", "text": "epoch 1 loss 0.5127\nepoch 2 loss 0.4311\nepoch 3 loss 0.3977\n"}
        for nb_ in (base, l, r):
            nb_["cells"][i]["outputs"].append(copy.deepcopy(o))
        keep, gone = (r, l) if shape == "del_vs_edit" else (l, r)
        kc = keep["cells"][i]
        kc["source"] = draw(edit_text(kc["source"]))
        kc["outputs"][-1]["text"] = o["text"].replace("0.4311", draw(st.sampled_from(["0.4977", "0.4000"])))
        if draw(st.booleans()):
            kc["execution_count"] = 12
        del gone["cells"][i]
        return l, r, shape + "_rerun_output_line"
    if shape == "del_vs_edit":
        del l["cells"][i]
        r["cells"][i] = draw(edit_cell(c, minor, dve))
        if dve and len(dve) == 2:
            r["cells"][i] = draw(edit_cell(r["cells"][i], minor, dve[::-1]))
    elif shape == "edit_vs_del":
        l["cells"][i] = draw(edit_cell(c, minor, dve))
        if dve and len(dve) == 2:
            l["cells"][i] = draw(edit_cell(l["cells"][i], minor, dve[::-1]))
        del r["cells"][i]
    elif shape == "both_del":
        del l["cells"][i]
        del r["cells"][i]
    elif shape == "both_edit_source":
        l["cells"][i] = draw(edit_cell(c, minor, draw(st.sampled_from([["source"], ["source"], ["source"], ["clear_source"]]))))
        r["cells"][i] = draw(edit_cell(c, minor, draw(st.sampled_from([["source"], ["source"], ["source"], ["clear_source"]]))))
    elif shape == "both_edit_outputs":
        l["cells"][i] = draw(edit_cell(c, minor, ["outputs"]))
        r["cells"][i] = draw(edit_cell(c, minor, ["outputs"]))
    elif shape == "both_edit_meta":
        l["cells"][i] = draw(edit_cell(c, minor, ["metadata"]))
        r["cells"][i] = draw(edit_cell(c, minor, ["metadata"]))
    elif shape == "same_insert_next_line_edit":
        # both sides add the same line(s) above a line that ONE side also edits at its first column (un-comment / comment out,
        # de-dent / indent) or elsewhere - in the source, or in the text of a stream output
        lines = ["import numpy as np\n", "# data = load('train.csv')\n", "    y = g(x)\n", "print(data.shape)\n", "> loss 0.9\n", "finished"]
        keep = draw(st.integers(2, len(lines)))
        lines = lines[:keep]
        if not lines[-1].endswith("\n") or draw(st.booleans()):
            lines[-1] = lines[-1].rstrip("\n")
        k = draw(st.integers(0, len(lines) - 1))
        new = [draw(st.sampled_from(["from util import load\n", "lr 0.01\n", "\n"])) for _ in range(draw(st.sampled_from([1, 1, 2])))]
        body = lines[k]
        edited = draw(st.sampled_from([body[2:] if len(body) > 3 else "Z" + body, body.lstrip(" ") if body.startswith(" ") else "    " + body,
                                       "# " + body, body[:3] + "Z" + body[3:], body[:1] + body[2:]]))
        one, other = lines[:k] + new + [edited] + lines[k + 1:], lines[:k] + new + lines[k:]
        if draw(st.booleans()):
            one, other = other, one
        extra_l = ["extra local\n"] if draw(st.sampled_from([False, False, True])) else []     # local adds one more line than remote
        one = one[:k] + extra_l + one[k:]
        where = "text" if c["cell_type"] == "code" and draw(st.booleans()) else "source"
        for nb_, ls in ((base, lines), (l, one), (r, other)):
            cc = nb_["cells"][i]
            if where == "source":
                cc["source"] = "".join(ls)
            else:
                cc["outputs"] = [{"output_type": "stream", "name": "stdout", "text": "".join(ls)}] + cc["outputs"][:1]
    elif shape == "both_add_outputs_shared" and c["cell_type"] == "code":
        # both sides re-ran the cell and got new outputs at one position that agree in some (a shared prefix / suffix) and differ in others
        pos = draw(st.integers(0, len(c["outputs"])))
        shared = [draw(output()) for _ in range(draw(st.integers(1, 2)))]
        own_l = [draw(output()) for _ in range(draw(st.integers(0, 2)))]
        own_r = [draw(output()) for _ in range(draw(st.integers(0 if own_l else 1, 2)))]
        order = draw(st.sampled_from(["shared_first", "shared_first", "shared_last", "around"]))
        for side, own in ((l, own_l), (r, own_r)):
            new = copy.deepcopy(shared + own if order == "shared_first" else own + shared if order == "shared_last" else shared[:1] + own + shared[1:])
            side["cells"][i]["outputs"][pos:pos] = new
        if draw(st.booleans()):
            l["cells"][i]["execution_count"] = r["cells"][i]["execution_count"] = 11
    elif shape == "attach_del_vs_edit" and c["cell_type"] != "code":
        # one side deletes an attachment (the image is gone), the other re-generates it (same file name, new data)
        name = draw(st.sampled_from(["a.png", "img.png"]))
        att = {name: {"image/png": B64A}}
        if draw(st.booleans()):
            att["other.png"] = {"image/png": B64B}
        for nb_ in (base, l, r):
            nb_["cells"][i]["attachments"] = copy.deepcopy(att)
        deleter, editor = (l, r) if draw(st.booleans()) else (r, l)
        del deleter["cells"][i]["attachments"][name]
        if not deleter["cells"][i]["attachments"] and draw(st.booleans()):
            del deleter["cells"][i]["attachments"]
        editor["cells"][i]["attachments"][name] = {"image/png": draw(st.sampled_from([B64B, B64C]))}
    elif shape == "out_insert_vs_change" and c["cell_type"] == "code":
        # one side inserts an output directly in front of an output the other side changed or deleted
        if not c["outputs"]:
            o = {"output_type": "stream", "name": "stdout", "text": "result 1\nresult 2\n"}
            for nb_ in (base, l, r):
                nb_["cells"][i]["outputs"].append(copy.deepcopy(o))
        outs = base["cells"][i]["outputs"]
        k = draw(st.integers(0, len(outs) - 1))
        ins, chg = (l, r) if draw(st.booleans()) else (r, l)
        ins["cells"][i]["outputs"].insert(k, draw(output()))
        if draw(st.booleans()):
            del chg["cells"][i]["outputs"][k]
        else:
            chg["cells"][i]["outputs"][k] = draw(edit_output(outs[k]))
    elif shape == "both_change_id":
        # both sides re-created the cell (cut and paste): same content, a new id on each side
        if "id" in c:
            l["cells"][i]["id"] = _fresh_id(usedl, "Lid")
            r["cells"][i]["id"] = _fresh_id(usedr, "Rid") if draw(st.sampled_from([True, True, False])) else l["cells"][i]["id"]
            if draw(st.booleans()):
                r["cells"][i] = draw(edit_cell(r["cells"][i], minor, ["source"], n_edits=1))
        else:
            l["cells"][i] = draw(edit_cell(c, minor, ["source"]))
            r["cells"][i] = draw(edit_cell(c, minor, ["source"]))
    elif shape == "both_ec":
        l["cells"][i] = draw(edit_cell(c, minor, ["ec", "outputs"]))
        r["cells"][i] = draw(edit_cell(c, minor, ["ec", "outputs"]))
    elif shape == "both_edit_same_output":
        if c["cell_type"] != "code":
            l["cells"][i] = draw(edit_cell(c, minor, ["source", "metadata"]))
            r["cells"][i] = draw(edit_cell(c, minor, ["source", "metadata"]))
        else:
            if not c["outputs"]:
                o = draw(output())
                for nb_ in (base, l, r):
                    nb_["cells"][i]["outputs"].append(copy.deepcopy(o))
            outs = base["cells"][i]["outputs"]
            j = draw(st.integers(0, len(outs) - 1))
            for side in (l, r):
                so = side["cells"][i]["outputs"]
                so[j] = draw(edit_output(outs[j]))
                extra = draw(st.sampled_from(["none", "none", "append", "insert_before", "del_other"]))
                if extra == "append":
                    so.append(draw(output()))
                elif extra == "insert_before":
                    so.insert(j, draw(output()))
                elif extra == "del_other" and len(so) > 1:
                    del so[(j + 1) % len(so)]
    elif shape == "same_output_line_small_edits" and c["cell_type"] == "code":
        # the same line of one output's text (or of the source) changed by a few characters on both sides - a character-level
        # conflict inside a line, the output staying aligned
        text_ = "epoch 1 loss 0.5127 accuracy 0.8011\nepoch 2 loss 0.4107 accuracy 0.8455\nepoch 3 loss 0.3977 accuracy 0.8590\n"
        kind_ = draw(st.sampled_from(["stream", "stream", "text/plain", "source"]))
        o = {"output_type": "stream", "name": "stdout", "text": text_} if kind_ == "stream" else \
            {"output_type": "execute_result", "data": {"text/plain": text_}, "metadata": {}, "execution_count": c.get("execution_count")}
        for nb_ in (base, l, r):
            if kind_ == "source":
                nb_["cells"][i]["source"] = text_
            else:
                nb_["cells"][i]["outputs"] = [copy.deepcopy(o)] + nb_["cells"][i]["outputs"][:1]
        swaps = [("0.4107", draw(st.sampled_from(["0.4109", "0.4"]))), ("0.8455", draw(st.sampled_from(["0.8461", "0.85"])))]
        if draw(st.sampled_from([False, False, True])):
            swaps[1] = ("0.4107", "0.4777")          # the very same characters on both sides
        for side, (old, newv) in zip((l, r), swaps):
            cc = side["cells"][i]
            if kind_ == "source":
                cc["source"] = cc["source"].replace(old, newv)
            elif kind_ == "stream":
                cc["outputs"][0]["text"] = cc["outputs"][0]["text"].replace(old, newv)
            else:
                cc["outputs"][0]["data"]["text/plain"] = cc["outputs"][0]["data"]["text/plain"].replace(old, newv)
    elif shape == "both_replace_sub":
        # both sides replace the same item (cell / output / source line) and what one side puts there is a sub-sequence of what the other
        # puts there: the same rewrite picked into both branches, one branch adding a follow-up item
        level = draw(st.sampled_from(["cell", "cell", "output", "line"]))
        if level == "output" and not (c["cell_type"] == "code" and c["outputs"]):
            level = "cell"
        more_side = draw(st.sampled_from(["l", "r"]))
        extra_first = draw(st.sampled_from([False, False, True]))
        if level == "cell":
            X = draw(cell(minor, _fresh_id(usedl | usedr, "X") if minor >= 5 else None))
            Y = draw(cell(minor, _fresh_id(usedl | usedr | {X.get("id")}, "Y") if minor >= 5 else None))
            for side, tag in ((l, "l"), (r, "r")):
                new = [copy.deepcopy(X)]
                if tag == more_side:
                    new = [copy.deepcopy(Y)] + new if extra_first else new + [copy.deepcopy(Y)]
                side["cells"][i:i + 1] = new
        elif level == "output":
            k = draw(st.integers(0, len(c["outputs"]) - 1))
            O1, O2 = draw(output()), draw(output())
            for side, tag in ((l, "l"), (r, "r")):
                new = [copy.deepcopy(O1)]
                if tag == more_side:
                    new = [copy.deepcopy(O2)] + new if extra_first else new + [copy.deepcopy(O2)]
                side["cells"][i]["outputs"][k:k + 1] = new
        else:
            lines = c["source"].splitlines(True) or ["pass\n"]
            if not lines[-1].endswith("\n"):
                lines[-1] += "\n"
            k = draw(st.integers(0, len(lines) - 1))
            for side, tag in ((l, "l"), (r, "r")):
                new = ["rewritten = compute(everything)\n"]
                if tag == more_side:
                    new = ["# follow-up\n"] + new if extra_first else new + ["follow_up(rewritten)\n"]
                side["cells"][i]["source"] = "".join(lines[:k] + new + lines[k + 1:])
    elif shape == "rerun_print_differs_result_same" and c["cell_type"] == "code":
        # both sides re-ran a cell that prints something and returns a value: the printed text differs, the value is the same and only
        # its execution count moved on (differently on the two sides)
        outs = [{"output_type": "stream", "name": "stdout", "text": "run at 10:00\n"},
                {"output_type": "execute_result", "data": {"text/plain": draw(st.sampled_from(REPRS))}, "metadata": {}, "execution_count": 1}]
        if draw(st.booleans()):
            outs.reverse()
        for nb_, (txt, ec) in ((base, ("run at 10:00\n", 1)), (l, ("run at 11:30\n", 2)), (r, ("run at 12:45\n", draw(st.sampled_from([3, 3, 2]))))):
            cc = nb_["cells"][i]
            cc["outputs"] = copy.deepcopy(outs)
            cc["execution_count"] = ec
            for o in cc["outputs"]:
                if o["output_type"] == "stream":
                    o["text"] = txt
                else:
                    o["execution_count"] = ec
    elif shape == "both_edit_tags":
        # both sides edit the cell's tags (a set written as a list): one replaces a tag, the other adds the same new tag, or both add it
        # at different ends
        t0 = draw(st.sampled_from([["draft"], ["a", "b"], ["draft", "slow"], []]))
        new = draw(st.sampled_from(["final", "x"]))
        variants = [[new] + t0[1:] if t0 else [new], t0 + [new], [new] + t0, [t for t in t0 if t != t0[0]] + [new] if t0 else [new]]
        tl, tr = draw(st.sampled_from(variants)), draw(st.sampled_from(variants))
        for nb_, tags in ((base, t0), (l, tl), (r, tr)):
            nb_["cells"][i]["metadata"] = dict(nb_["cells"][i]["metadata"], tags=list(tags))
    elif shape == "both_edit_text_with_nul":
        # both sides edit the same line of a source that holds a NUL character (valid JSON; external merge tools call it binary)
        src = "a = 1\nb = '\x00'\nc = 3\n"
        for nb_, tail in ((base, ""), (l, " + x"), (r, " + y")):
            nb_["cells"][i]["source"] = src.replace("'\x00'", "'\x00'" + tail)
    elif shape == "both_insert_block":
        # both sides insert a block of lines at the same line of the same source; the blocks share (repeated) lines
        # around a differing middle, e.g. blank line / statement / blank line
        lines = c["source"].splitlines(True)
        if lines and not lines[-1].endswith(("\n", "\r")):
            lines[-1] += "\n"
        k = draw(st.integers(0, len(lines)))
        frame = draw(st.sampled_from(["\n", "# ---\n", "pass\n"]))
        pool = CODE_LINES if c["cell_type"] == "code" else MD_LINES
        mid_l = [_line(draw, pool) + "\n" for _ in range(draw(st.integers(1, 2)))]
        mid_r = [_line(draw, pool) + "\n" for _ in range(draw(st.integers(1, 2)))]
        reps = draw(st.sampled_from([1, 1, 2]))
        base["cells"][i]["source"] = "".join(lines)
        l["cells"][i] = copy.deepcopy(base["cells"][i])
        r["cells"][i] = copy.deepcopy(base["cells"][i])
        l["cells"][i]["source"] = "".join(lines[:k] + [frame] * reps + mid_l + [frame] * reps + lines[k:])
        r["cells"][i]["source"] = "".join(lines[:k] + [frame] * reps + mid_r + [frame] * reps + lines[k:])
    elif shape == "two_outputs":
        # one output of a cell changed by both sides in a conflicting way, ANOTHER output of the same cell changed by both
        # sides in different places (local: its metadata, remote: its data) - decisions of one outputs list get bundled
        if c["cell_type"] != "code":
            l["cells"][i] = draw(edit_cell(c, minor, ["source"]))
            r["cells"][i] = draw(edit_cell(c, minor, ["source"]))
        else:
            while len(base["cells"][i]["outputs"]) < 2 or not any(o["output_type"] in ("display_data", "execute_result") for o in base["cells"][i]["outputs"]):
                o = {"output_type": "display_data", "data": {"text/plain": draw(text(3)) or "value\n"}, "metadata": {"a": 1}}
                for nb_ in (base, l, r):
                    nb_["cells"][i]["outputs"].append(copy.deepcopy(o))
            outs = base["cells"][i]["outputs"]
            rich = [k for k, o in enumerate(outs) if o["output_type"] in ("display_data", "execute_result")]
            j2 = draw(st.sampled_from(rich))
            j1 = draw(st.sampled_from([k for k in range(len(outs)) if k != j2]))
            l["cells"][i]["outputs"][j1] = draw(edit_output(outs[j1]))
            r["cells"][i]["outputs"][j1] = draw(edit_output(outs[j1]))
            lo, ro = l["cells"][i]["outputs"][j2], r["cells"][i]["outputs"][j2]
            lo["metadata"] = dict(lo["metadata"], width=draw(st.sampled_from([100, 200])))
            k = sorted(ro["data"])[0] if ro["data"] else "text/plain"
            v = ro["data"].get(k, "")
            ro["data"][k] = (v + "\nmore") if isinstance(v, str) else draw(edit_json(v))
    elif shape == "both_rerun":
        # the everyday conflict: both sides re-executed the same cell (different execution counts, maybe new outputs)
        if c["cell_type"] == "code" and draw(st.booleans()):
            c["execution_count"] = None          # never executed in base
            if draw(st.booleans()):
                c["outputs"] = []                # ... so it has no outputs there either
        l["cells"][i] = draw(edit_cell(c, minor, ["rerun"], n_edits=1))
        r["cells"][i] = draw(edit_cell(c, minor, ["rerun"], n_edits=1))
        if c["cell_type"] == "code":
            r["cells"][i]["execution_count"] = l["cells"][i]["execution_count"] + draw(st.sampled_from([0, 1, 2]))
            for o in r["cells"][i]["outputs"]:
                if o["output_type"] == "execute_result":
                    o["execution_count"] = r["cells"][i]["execution_count"]
            if draw(st.booleans()):
                r["cells"][i] = draw(edit_cell(r["cells"][i], minor, ["outputs"], n_edits=1))
    elif shape == "type_vs_edit":
        a_, b_ = (l, r) if draw(st.booleans()) else (r, l)
        a_["cells"][i] = draw(edit_cell(c, minor, ["type"], n_edits=1))
        b_["cells"][i] = draw(edit_cell(c, minor, draw(st.sampled_from([["rerun"], ["rerun"], ["outputs"], ["source"], ["rerun", "toggle"], ["ec"]]))))
    elif shape == "transient_meta":
        # keys the merger treats as transient: collapsed / scrolled (/ autoscroll): remove on one side, change on the other ...
        key = draw(st.sampled_from(["collapsed", "scrolled", "scrolled"])) if c["cell_type"] == "code" else "collapsed"
        vals = [True, False] if key == "collapsed" or c["cell_type"] != "code" else [True, False, "auto"]
        if c["cell_type"] == "code":
            v0 = draw(st.sampled_from(vals))
            for nb_ in (base, l, r):
                nb_["cells"][i]["metadata"][key] = v0
            for side in (l, r):
                act = draw(st.sampled_from(["remove", "change", "change", "change", "keep"]))
                if act == "remove":
                    del side["cells"][i]["metadata"][key]
                elif act == "change":
                    side["cells"][i]["metadata"][key] = draw(st.sampled_from([v for v in vals if v != v0]))
        else:
            l["cells"][i] = draw(edit_cell(c, minor, ["metadata"]))
            r["cells"][i] = draw(edit_cell(c, minor, ["metadata"]))
    elif shape == "both_attach_leftover" and c["cell_type"] != "code":
        # an attachment both sides replace with different data, in a cell that still holds LOCAL_/REMOTE_ leftovers of an earlier
        # conflicted merge (none, one or both of them)
        name = draw(st.sampled_from(["a.png", "img.png"]))
        att = {name: {"image/png": B64A}}
        for left in draw(st.sampled_from([["LOCAL_"], ["REMOTE_"], ["LOCAL_"], ["REMOTE_"], ["LOCAL_", "REMOTE_"], []])):
            att[left + name] = {"image/png": draw(st.sampled_from(B64S[:3]))}
        for nb_ in (base, l, r):
            nb_["cells"][i]["attachments"] = copy.deepcopy(att)
        l["cells"][i]["attachments"][name] = {"image/png": B64B}
        r["cells"][i]["attachments"][name] = {"image/png": B64C}
        for side in (l, r):
            # ... and a side may have tidied up a leftover
            for k in [k for k in sorted(att) if k != name]:
                if draw(st.sampled_from([True, False, False])):
                    del side["cells"][i]["attachments"][k]
    elif shape == "both_attach" or shape == "both_attach_leftover":
        l["cells"][i] = draw(edit_cell(c, minor, ["attach"]))
        r["cells"][i] = draw(edit_cell(c, minor, ["attach"]))
    elif shape == "both_same_edit":
        e = draw(edit_cell(c, minor))
        l["cells"][i] = copy.deepcopy(e)
        r["cells"][i] = copy.deepcopy(e)
    elif shape == "insert_next_to_edit":
        l["cells"][i] = draw(edit_cell(c, minor))
        r["cells"].insert(i + draw(st.integers(0, 1)), draw(cell(minor, _fresh_id(usedr, "Rn") if minor >= 5 else None)))
    elif shape == "insert_next_to_del":
        del l["cells"][i]
        r["cells"].insert(i + draw(st.integers(0, 1)), draw(cell(minor, _fresh_id(usedr, "Rn") if minor >= 5 else None)))
    elif shape == "both_append_nonl":
        src = c["source"]
        if src.endswith("\n"):
            src = src[:-1]
        base["cells"][i]["source"] = src
        l["cells"][i] = copy.deepcopy(base["cells"][i])
        r["cells"][i] = copy.deepcopy(base["cells"][i])
        l["cells"][i]["source"] = src + ("\n" if src else "") + _line(draw, CODE_LINES)
        r["cells"][i]["source"] = src + ("\n" if src else "") + _line(draw, CODE_LINES)
    elif shape == "both_nbmeta":
        l = draw(edit_notebook(l, "L", ops=["meta"], min_steps=1, max_steps=1))
        r = draw(edit_notebook(r, "R", ops=["meta"], min_steps=1, max_steps=1))
    elif shape == "both_minor":
        near = [0, 2, 3, 4, 4, 5, 5]       # ids are required from 4.5 and forbidden before: stay near that boundary
        set_minor(l, draw(st.sampled_from(near)), "Lm")
        set_minor(r, draw(st.sampled_from(near)), "Rm")
    return l, r, shape


@st.composite
def triple(draw, max_cells=5, forced=None):
    """(base, local, remote, shape)."""
    mode = draw(st.sampled_from(range(10)))
    if mode == 0:
        return draw(notebook(max_cells=max_cells)), draw(notebook(max_cells=max_cells)), draw(notebook(max_cells=max_cells)), "unrelated"
    base = draw(notebook(max_cells=max_cells))
    if forced is None:
        forced = mode <= 5
    if forced:
        l, r, shape = draw(_forced_conflict(base))
        if draw(st.booleans()):
            l = draw(edit_notebook(l, "L", max_steps=2))
            r = draw(edit_notebook(r, "R", max_steps=2))
        return base, l, r, shape
    return base, draw(edit_notebook(base, "L")), draw(edit_notebook(base, "R")), "free"


# ----------------------------------------------------------------------------- validity (non-mutating)

_validators = {}


def _validator(minor, part="nb"):
    """Draft4 validator for one part of the v4.<minor> schema. Cells and outputs are validated against the definition their
    cell_type / output_type selects (instead of the schema's oneOf), which gives the same verdict with readable messages."""
    import jsonschema
    import nbformat
    if minor not in _validators:
        d = os.path.dirname(nbformat.v4.__file__)
        with open(os.path.join(d, "nbformat.v4.%d.schema.json" % minor)) as f:
            root = json.load(f)
        vs = {"nb": jsonschema.Draft4Validator(root)}
        for name in ("code_cell", "markdown_cell", "raw_cell", "stream", "error", "display_data", "execute_result"):
            vs[name] = jsonschema.Draft4Validator({"$schema": root.get("$schema"), "definitions": root["definitions"],
                                                    "$ref": "#/definitions/" + name})
        _validators[minor] = vs
    return _validators[minor][part]


def has_duplicate_ids(nb):
    ids = [c.get("id") for c in nb.get("cells", []) if isinstance(c, dict) and "id" in c]
    return len(set(map(str, ids))) != len(ids)


def schema_errors(nb, limit=3, unique_ids=True):
    """jsonschema errors of nb against the schema of the minor it declares (on a deep copy; never mutates)."""
    nb = json.loads(json.dumps(nb))
    if nb.get("nbformat") != 4:
        return ["nbformat is %r" % (nb.get("nbformat"),)]
    minor = nb.get("nbformat_minor")
    if not isinstance(minor, int) or isinstance(minor, bool) or minor < 0:
        return ["nbformat_minor is %r" % (minor,)]
    m = min(minor, 5)
    errs = []

    def add(v, inst, where):
        for e in v.iter_errors(inst):
            errs.append("%s at %s/%s" % (e.message[:100], where, "/".join(str(p) for p in e.absolute_path)))

    cells = nb.get("cells")
    if not isinstance(cells, list):
        return ["cells is not a list"]
    add(_validator(m), dict(nb, cells=[]), "")
    for i, c in enumerate(cells):
        ct = c.get("cell_type") if isinstance(c, dict) else None
        if ct not in ("code", "markdown", "raw"):
            errs.append("unrecognized cell_type %r at /cells/%d" % (ct, i))
            continue
        outs = c.get("outputs") if ct == "code" else None
        if isinstance(outs, list):
            add(_validator(m, ct + "_cell"), dict(c, outputs=[]), "/cells/%d" % i)
            for j, o in enumerate(outs):
                ot = o.get("output_type") if isinstance(o, dict) else None
                if ot not in ("stream", "error", "display_data", "execute_result"):
                    errs.append("unrecognized output_type %r at /cells/%d/outputs/%d" % (ot, i, j))
                else:
                    add(_validator(m, ot), o, "/cells/%d/outputs/%d" % (i, j))
        else:
            add(_validator(m, ct + "_cell"), c, "/cells/%d" % i)
        if len(errs) >= limit:
            break
    if unique_ids and has_duplicate_ids(nb):
        errs.append("duplicate cell ids")
    return errs[:limit + 1]
