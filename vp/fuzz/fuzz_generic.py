#!/venv/bin/python
"""Coverage-guided fuzz target (atheris / libFuzzer) for the generic JSON differ and patcher: properties C02 and C11.

Bytes are decoded into two JSON documents of one container type (structured decoding, so the fuzzer reaches the differ's logic
instead of dying in input validation); the semantic oracles of C02 (type-strict round trip, independent reference patcher,
empty diff => identical) and C11 (strict well-formedness) run INSIDE the target. On a failure the decoded case is written as
a replay file for `./check --replay` and the process aborts (libFuzzer also keeps the raw input).

usage: fuzz_generic.py <out_dir> [libFuzzer flags, e.g. -runs=20000 -seed=7] [corpus_dir]
"""
import json
import os
import sys

import atheris

OUT = sys.argv[1]
ARGV = [sys.argv[0]] + sys.argv[2:]
PROP = os.environ.get("VP_FUZZ_PROP", "C02")     # which property's oracles run inside the target

with atheris.instrument_imports(include=["nbdime"]):
    import nbdime
    import nbdime.diffing.generic
    import nbdime.patching
    import nbdime.diff_utils

from vp.props import c02, c11          # noqa: E402  (oracles; not instrumented)

ALPH = ["a", "b", "ab", "x = 1", "", " ", "\n", "\r\n", "\r", "\x0b", "\x0c", "\x1c", "\x85", " ", "é", "0", "line one", "line two"]
KEYS = ["a", "b", "k", "2019", "3d"]
SCALARS = [None, True, False, 0, 1, 2, -1, 0.0, 1.0, 2.5, "a", "b", ""]
stats = {"execs": 0, "nontrivial": 0}


def doc(fdp, depth, kind=None):
    k = kind if kind is not None else fdp.ConsumeIntInRange(0, 5)
    if depth <= 0 and k in (3, 4):
        k = 0
    if k in (0, 1):
        return SCALARS[fdp.ConsumeIntInRange(0, len(SCALARS) - 1)]
    if k in (2, 5):
        n = fdp.ConsumeIntInRange(0, 6)
        return "".join(ALPH[fdp.ConsumeIntInRange(0, len(ALPH) - 1)] for _ in range(n))
    if k == 3:
        return [doc(fdp, depth - 1) for _ in range(fdp.ConsumeIntInRange(0, 5))]
    return {KEYS[fdp.ConsumeIntInRange(0, len(KEYS) - 1)]: doc(fdp, depth - 1) for _ in range(fdp.ConsumeIntInRange(0, 4))}


def mutate(fdp, v, depth):
    """A related document of the same container type."""
    if isinstance(v, str):
        parts = v.splitlines(True) or [""]
        for _ in range(fdp.ConsumeIntInRange(1, 3)):
            op = fdp.ConsumeIntInRange(0, 3)
            i = fdp.ConsumeIntInRange(0, len(parts) - 1) if parts else 0
            if op == 0 or not parts:
                parts.insert(i, ALPH[fdp.ConsumeIntInRange(0, len(ALPH) - 1)] + ALPH[fdp.ConsumeIntInRange(6, 13)])
            elif op == 1:
                del parts[i]
            elif op == 2:
                parts[i] = parts[i][:len(parts[i]) // 2] + "Z" + parts[i][len(parts[i]) // 2:]
            else:
                parts[i] = parts[i].rstrip("\r\n")
        return "".join(parts)
    if isinstance(v, list):
        v = list(v)
        for _ in range(fdp.ConsumeIntInRange(1, 3)):
            op = fdp.ConsumeIntInRange(0, 4)
            i = fdp.ConsumeIntInRange(0, max(0, len(v) - 1))
            if op == 0 or not v:
                v.insert(min(i, len(v)), doc(fdp, 1))
            elif op == 1:
                del v[i]
            elif op == 2:
                v.insert(fdp.ConsumeIntInRange(0, len(v)), v[i])
            elif op == 3:
                v[i] = doc(fdp, 1)
            elif isinstance(v[i], (str, list, dict)) and depth > 0:
                v[i] = mutate(fdp, v[i], depth - 1)
        return v
    if isinstance(v, dict):
        v = dict(v)
        for _ in range(fdp.ConsumeIntInRange(1, 3)):
            op = fdp.ConsumeIntInRange(0, 3)
            ks = sorted(v)
            if op == 0 or not ks:
                v[KEYS[fdp.ConsumeIntInRange(0, len(KEYS) - 1)]] = doc(fdp, 1)
            else:
                k = ks[fdp.ConsumeIntInRange(0, len(ks) - 1)]
                if op == 1:
                    del v[k]
                elif op == 2:
                    v[k] = doc(fdp, 1)
                elif isinstance(v[k], (str, list, dict)) and depth > 0:
                    v[k] = mutate(fdp, v[k], depth - 1)
        return v
    return v


def TestOneInput(data):
    fdp = atheris.FuzzedDataProvider(data)
    kind = (2, 3, 4)[fdp.ConsumeIntInRange(0, 2)]
    a = doc(fdp, 3, kind)
    b = doc(fdp, 3, kind) if fdp.ConsumeIntInRange(0, 7) == 0 else mutate(fdp, json.loads(json.dumps(a)), 2)
    stats["execs"] += 1
    if stats["execs"] % 500 == 0:
        _dump()
    case = {"a": a, "b": b, "rel": "fuzz"}
    if PROP == "C02":
        out = c02.run_case(case)
    else:
        out = c11.run_case({"kind": "json", "a": a, "b": b})
    fails = list(out.failures)
    if out.nontrivial:
        stats["nontrivial"] += 1
    if fails:
        os.makedirs(OUT, exist_ok=True)
        import hashlib
        h = hashlib.sha1(json.dumps(case, sort_keys=True).encode()).hexdigest()[:10]
        prop = PROP
        c = case if prop == "C02" else {"kind": "json", "a": a, "b": b}
        with open(os.path.join(OUT, "fuzz_%s_%s.json" % (prop, h)), "w") as f:
            json.dump({"property": prop, "origin": "atheris", "failure": fails[0], "case": c}, f, default=str)
        raise RuntimeError("property violated: %s %s %s" % (fails[0]["clause"], fails[0]["kind"], fails[0]["msg"]))


def _dump():
    try:
        os.makedirs(OUT, exist_ok=True)
        with open(os.path.join(OUT, "stats_%d.json" % os.getpid()), "w") as f:
            json.dump(stats, f)
    except Exception:
        pass


def main():
    atheris.Setup(ARGV, TestOneInput)
    atheris.Fuzz()


if __name__ == "__main__":
    main()
