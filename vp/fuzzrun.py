"""Runs the atheris target vp/fuzz/fuzz_generic.py as a sharded campaign and folds the result into a check's evidence."""
import glob
import json
import os
import re
import shutil
import subprocess
import sys
import tempfile

from .runner import ROOT, REPO, OUT_ROOT, NSHARDS


def campaign(prop_id, runs_per_proc):
    try:
        env = dict(os.environ)
        env["PYTHONPATH"] = os.pathsep.join([REPO, ROOT, os.path.join(ROOT, "stubs"), os.path.join(ROOT, ".deps")])
        env["VP_FUZZ_PROP"] = prop_id
        subprocess.run([sys.executable, "-c", "import atheris"], env=env, check=True, capture_output=True)
    except Exception:
        return {"fuzz": {"skipped": "atheris is not importable (run ./setup.sh)"}}
    seed = int(os.environ.get("VERIF_SEED", "1") or "1")
    top = tempfile.mkdtemp(prefix="vp_fuzz_")
    outdir = os.path.join(OUT_ROOT, "replays", "new", prop_id)
    os.makedirs(outdir, exist_ok=True)
    procs = []
    for i in range(NSHARDS):
        corpus = os.path.join(top, "corpus%d" % i)
        os.makedirs(corpus)
        fout = os.path.join(top, "out%d" % i)
        cmd = [sys.executable, os.path.join(ROOT, "vp", "fuzz", "fuzz_generic.py"), fout, "-runs=%d" % runs_per_proc,
               "-seed=%d" % (seed * 100 + i + 1), "-max_len=256", "-artifact_prefix=" + top + "/", corpus]
        procs.append((i, fout, corpus, subprocess.Popen(cmd, cwd=ROOT, env=env, stdout=subprocess.DEVNULL, stderr=subprocess.PIPE, text=True)))
    total = nontrivial = corpus_size = 0
    violations = []
    for i, fout, corpus, p in procs:
        _, err = p.communicate()
        m = re.search(r"Done (\d+) runs", err or "")
        for sf in glob.glob(os.path.join(fout, "stats_*.json")):
            st = json.load(open(sf))
            nontrivial += st.get("nontrivial", 0)
            if not m:
                total += st.get("execs", 0)
        if m:
            total += int(m.group(1))
        corpus_size += len(os.listdir(corpus))
        for rf in glob.glob(os.path.join(fout, "fuzz_*.json")):
            data = json.load(open(rf))
            dst = os.path.join(outdir, os.path.basename(rf))
            shutil.copy(rf, dst)
            if data["property"] == prop_id:
                violations.append((os.path.relpath(dst, OUT_ROOT) if OUT_ROOT == ROOT else dst, data["failure"]))
    shutil.rmtree(top, ignore_errors=True)
    return {"fuzz": {"engine": "atheris/libFuzzer", "processes": NSHARDS, "executions": total, "nontrivial_at_least": nontrivial,
                     "corpus_entries_found": corpus_size, "findings": len(violations)}, "violations": violations}
