"""Strict diff well-formedness (property C11), independent of nbdime.diff_format.validate_diff.

wellformed(base, diff) -> list of problem strings (empty = well-formed).
`level` for strings: 'lines' (outer level of a string diff: keys index lines) or 'chars'.
"""
import json
import os

import jsonschema

from .refpatch import split_lines

REPO = os.environ.get("VERIF_REPO", "/repo")
_schema_cache = {}


def diff_schema_validator():
    if "v" not in _schema_cache:
        with open(os.path.join(REPO, "nbdime", "diff_format.schema.json")) as f:
            schema = json.load(f)
        _schema_cache["v"] = jsonschema.Draft4Validator(schema)
    return _schema_cache["v"]


def schema_problems(diff):
    v = diff_schema_validator()
    return ["schema: %s at %s" % (e.message[:80], list(e.absolute_path)[:6]) for e in list(v.iter_errors(diff))[:3]]


def wellformed(base, diff, path="", strlevel="lines"):
    probs = []
    _wf(base, diff, path, strlevel, probs)
    return probs


def _isint(x):
    return isinstance(x, int) and not isinstance(x, bool)


def _wf(base, diff, path, strlevel, probs):
    if not isinstance(diff, list):
        probs.append("%s: diff is %s, not list" % (path, type(diff).__name__))
        return
    if isinstance(base, dict):
        _wf_map(base, diff, path, probs)
    elif isinstance(base, list):
        _wf_seq(base, diff, path, probs, kind="list")
    elif isinstance(base, str):
        if strlevel == "lines":
            _wf_seq(split_lines(base), diff, path, probs, kind="lines")
        else:
            _wf_seq(list(base), diff, path, probs, kind="chars")
    else:
        probs.append("%s: diff on leaf of type %s" % (path, type(base).__name__))


def _wf_map(base, diff, path, probs):
    seen = set()
    for e in diff:
        if not isinstance(e, dict) or "op" not in e or "key" not in e:
            probs.append("%s: malformed entry" % path)
            continue
        op, key = e["op"], e["key"]
        allowed = {"add": {"op", "key", "value"}, "remove": {"op", "key"}, "replace": {"op", "key", "value"},
                   "patch": {"op", "key", "diff"}}
        if op not in allowed:
            probs.append("%s: illegal mapping op %r" % (path, op))
            continue
        if set(e.keys()) != allowed[op]:
            probs.append("%s: fields of %s entry are %s" % (path, op, sorted(e.keys())))
            continue
        if not isinstance(key, str):
            probs.append("%s: mapping key %r not a string" % (path, key))
            continue
        if key in seen:
            probs.append("%s: key %r targeted more than once" % (path, key))
        seen.add(key)
        if op == "add":
            if key in base:
                probs.append("%s: add names present key %r" % (path, key))
        else:
            if key not in base:
                probs.append("%s: %s names absent key %r" % (path, op, key))
                continue
            if op == "patch":
                sub = base[key]
                if not isinstance(sub, (dict, list, str)):
                    probs.append("%s/%s: patch descends into leaf" % (path, key))
                elif not e["diff"]:
                    probs.append("%s/%s: empty patch" % (path, key))
                else:
                    _wf(sub, e["diff"], path + "/" + key, "lines", probs)


def _wf_seq(base, diff, path, probs, kind):
    n = len(base)
    cursor = 0
    prev_key = -1
    last_add = None
    for e in diff:
        if not isinstance(e, dict) or "op" not in e or "key" not in e:
            probs.append("%s: malformed entry" % path)
            continue
        op, key = e["op"], e["key"]
        allowed = {"addrange": {"op", "key", "valuelist"}, "removerange": {"op", "key", "length"},
                   "patch": {"op", "key", "diff"}}
        if op not in allowed:
            probs.append("%s: illegal sequence op %r" % (path, op))
            continue
        if set(e.keys()) != allowed[op]:
            probs.append("%s: fields of %s entry are %s" % (path, op, sorted(e.keys())))
            continue
        if not _isint(key):
            probs.append("%s: sequence key %r not an integer" % (path, key))
            continue
        if key < prev_key:
            probs.append("%s: ops not ordered by position (%d after %d)" % (path, key, prev_key))
        prev_key = max(prev_key, key)
        if key < 0 or key > n:
            probs.append("%s: key %d out of bounds [0,%d]" % (path, key, n))
            continue
        if key < cursor:
            probs.append("%s: %s at %d overlaps range consumed up to %d" % (path, op, key, cursor))
        if op == "addrange":
            if last_add == key:
                probs.append("%s: two addranges at %d" % (path, key))
            last_add = key
            vl = e["valuelist"]
            if kind == "chars":
                if not isinstance(vl, (str, list)) or (
                        isinstance(vl, list) and not all(isinstance(c, str) and len(c) == 1 for c in vl)):
                    probs.append("%s: bad character valuelist %r" % (path, vl))
            elif kind == "lines":
                if not isinstance(vl, list) or not all(isinstance(c, str) for c in vl):
                    probs.append("%s: bad line valuelist" % path)
            else:
                if not isinstance(vl, list):
                    probs.append("%s: non-list valuelist" % path)
        elif op == "removerange":
            ln = e["length"]
            if not _isint(ln) or ln < 1:     # (an empty range removes nothing; the TypeScript patcher rejects it on an empty list)
                probs.append("%s: removerange length %r" % (path, ln))
                continue
            if key + ln > n:
                probs.append("%s: removerange %d+%d beyond length %d" % (path, key, ln, n))
            cursor = max(cursor, key + ln)
        else:  # patch
            if key >= n:
                probs.append("%s: patch at %d beyond length %d" % (path, key, n))
                continue
            if not e["diff"]:
                probs.append("%s/%d: empty patch" % (path, key))
            elif kind == "chars":
                probs.append("%s/%d: patch below character level" % (path, key))
            elif kind == "lines":
                _wf(base[key], e["diff"], "%s/%d" % (path, key), "chars", probs)
            else:
                sub = base[key]
                if not isinstance(sub, (dict, list, str)):
                    probs.append("%s/%d: patch descends into leaf" % (path, key))
                else:
                    _wf(sub, e["diff"], "%s/%d" % (path, key), "lines", probs)
            cursor = max(cursor, key + 1)


def addrange_before_others(diff):
    """At equal key an addrange must precede removerange/patch (recursive). Returns problems."""
    probs = []

    def walk(d, path):
        seen_nonadd = {}
        for e in d:
            if not isinstance(e, dict):
                continue
            k = e.get("key")
            if e.get("op") == "addrange":
                if seen_nonadd.get(k):
                    probs.append("%s: addrange at %r after removerange/patch at same key" % (path, k))
            elif e.get("op") in ("removerange", "patch") and _isint(k):
                seen_nonadd[k] = True
            if e.get("op") == "patch" and isinstance(e.get("diff"), list):
                walk(e["diff"], "%s/%s" % (path, k))
    walk(diff, "")
    return probs


def json_roundtrip_problems(diff):
    try:
        s = json.dumps(diff, allow_nan=False)
    except Exception as ex:
        return ["not JSON-serialisable: %s" % ex]
    back = json.loads(s)
    if json.dumps(back, sort_keys=True) != json.dumps(diff, sort_keys=True):
        return ["JSON round trip changed the diff"]
    return []
