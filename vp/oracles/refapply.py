"""Independent application of merge decisions (C09), written from docs/source/merging.rst and the property text.

ref_apply(base, decisions) -> merged document (plain JSON).  Decisions are plain dicts as JSON carries them.
Rules used:
  * decisions are applied in list order, "path group by path group": consecutive decisions with the same effective path
    form one group whose resolved diffs are combined and applied as ONE patch to the sub-document at that path, because all
    diffs are relative to the base document;
  * a common_path component that indexes into a string selects a line of it: the decision's diffs are then
    character-level diffs of that line; the effective path is the string's path;
  * a decision inside a sub-document must precede any decision on an enclosing path and a path group must be contiguous
    (otherwise positions referred to later would be invalidated) - violations raise RefApplyError.
Shares no code with nbdime.merging.decisions.
"""
import copy

from .refpatch import refpatch, split_lines, RefPatchError


class RefApplyError(Exception):
    pass


def effective_path(doc, path):
    """(path of the container the group patches, residual line path inside a string)"""
    cur = doc
    for i, p in enumerate(path):
        if isinstance(cur, str):
            return tuple(path[:i]), tuple(path[i:])
        try:
            cur = cur[p]
        except (KeyError, IndexError, TypeError):
            raise RefApplyError("common_path %r does not resolve at component %r" % (list(path), p))
    return tuple(path), ()


def cleared(v):
    if isinstance(v, list):
        return []
    if isinstance(v, dict):
        return {}
    if isinstance(v, str):
        return ""
    return None


def resolve(sub, d):
    """The diff an action stands for, relative to the sub-document `sub`."""
    a = d.get("action")
    ld = list(d.get("local_diff") or [])
    rd = list(d.get("remote_diff") or [])
    if a == "base":
        return []
    if a in ("local", "either"):
        return copy.deepcopy(ld)
    if a == "remote":
        return copy.deepcopy(rd)
    if a == "custom":
        return copy.deepcopy(list(d.get("custom_diff") or []))
    if a == "local_then_remote":
        return copy.deepcopy(ld + rd)
    if a == "remote_then_local":
        return copy.deepcopy(rd + ld)
    if a in ("clear", "remove"):
        keys = {e["key"] for e in ld + rd}
        if len(keys) != 1:
            raise RefApplyError("%s action needs exactly one key, got %r" % (a, sorted(map(str, keys))))
        key = keys.pop()
        if a == "clear":
            return [{"op": "replace", "key": key, "value": cleared(sub[key])}]
        if isinstance(sub, (list, str)):
            return [{"op": "removerange", "key": key, "length": 1}]
        return [{"op": "remove", "key": key}]
    if a == "clear_all":
        if isinstance(sub, dict):
            return [{"op": "remove", "key": k} for k in sub]
        return [{"op": "removerange", "key": 0, "length": len(sub)}] if len(sub) else []
    if a == "take_max":
        keys = {e["key"] for e in ld + rd}
        if len(keys) != 1:
            raise RefApplyError("take_max needs exactly one key")
        key = keys.pop()
        b = sub[key]
        lv = ld[0]["value"] if ld else b
        rv = rd[0]["value"] if rd else b
        m = max(b, lv, rv)
        return [] if m == b else [{"op": "replace", "key": key, "value": m}]
    raise RefApplyError("unknown action %r" % (a,))


def combine(diffs):
    """One well-formed diff from several diffs against the same document: patches on one key are merged recursively;
    sequence entries are ordered by key with addrange first at equal key."""
    out = []
    patches = {}
    for e in diffs:
        if e.get("op") == "patch":
            k = e["key"]
            if k in patches:
                patches[k]["diff"] = patches[k]["diff"] + list(e["diff"])
            else:
                p = {"op": "patch", "key": k, "diff": list(e["diff"])}
                patches[k] = p
                out.append(p)
        else:
            out.append(e)
    for p in patches.values():
        p["diff"] = combine(p["diff"])
    if all(isinstance(e["key"], int) and not isinstance(e["key"], bool) for e in out):
        # stable: keeps 'local then remote' order of two addranges at one key
        out.sort(key=lambda e: (e["key"], 0 if e["op"] == "addrange" else 1))
        merged = []
        for e in out:
            if merged and e["op"] == "addrange" and merged[-1]["op"] == "addrange" and merged[-1]["key"] == e["key"]:
                vl = merged[-1]["valuelist"]
                merged[-1] = dict(merged[-1], valuelist=(vl + e["valuelist"]) if not isinstance(vl, str) or isinstance(e["valuelist"], str)
                                  else list(vl) + list(e["valuelist"]))
            elif (merged and e["op"] == "removerange" and merged[-1]["op"] == "removerange"
                  and merged[-1]["key"] + merged[-1]["length"] == e["key"]):
                merged[-1] = dict(merged[-1], length=merged[-1]["length"] + e["length"])
            else:
                merged.append(e)
        return merged
    out.sort(key=lambda e: str(e["key"]))
    return out


def _get(doc, path):
    for p in path:
        doc = doc[p]
    return doc


def _set(doc, path, value):
    if not path:
        return value
    parent = _get(doc, path[:-1])
    parent[path[-1]] = value
    return doc


def ref_apply(base, decisions):
    merged = copy.deepcopy(base)
    done_paths = []
    i = 0
    n = len(decisions)
    while i < n:
        path, _ = effective_path(merged, decisions[i].get("common_path") or [])
        for dp in done_paths:
            if dp == path:
                raise RefApplyError("path group %r is not contiguous" % (list(path),))
            if len(path) > len(dp) and path[:len(dp)] == dp:
                raise RefApplyError("decision at %r follows a decision on its enclosing path %r" % (list(path), list(dp)))
        sub = _get(merged, path)
        group = []
        while i < n:
            p2, line = effective_path(merged, decisions[i].get("common_path") or [])
            if p2 != path:
                break
            if line:
                if len(line) != 1:
                    raise RefApplyError("path descends below a line of a string: %r" % (list(decisions[i]["common_path"]),))
                lines = split_lines(sub)
                if not (0 <= line[0] < len(lines)):
                    raise RefApplyError("line %r out of range" % (line[0],))
                chars = resolve(lines[line[0]], decisions[i])
                if chars:
                    group.append({"op": "patch", "key": line[0], "diff": chars})
            else:
                group.extend(resolve(sub, decisions[i]))
            i += 1
        diff = combine(group)
        if diff:
            try:
                merged = _set(merged, path, refpatch(sub, diff))
            except RefPatchError as e:
                raise RefApplyError("group at %r cannot be applied: %s" % (list(path), e))
        done_paths.append(path)
    return merged
