"""Independent reference patcher, written from docs/source/diffing.rst only.

Shares no code with nbdime.patching / nbdime.diff_utils.  Operates on plain JSON
(dict entries with 'op', 'key', ...).  Rejects (raises RefPatchError) anything that
is not well-formed for the object it is applied to, so "an independent
implementation obtains the same result" is a real test.

Documented semantics:
  mappings:  remove / add / replace / patch by string key
  sequences: integer key relative to A;  removerange deletes A[key:key+length];
             addrange inserts valuelist before A[key] (at end if key == len(A));
             patch patches A[key] with a nested diff
  strings:   a string is the sequence of its lines (kept line endings); a patch on a
             line is a character-level sequence diff of that line; result is re-joined.
"""
import re

# every separator str.splitlines honours (Python docs, "str.splitlines" table)
_SEPS = "\n\r\x0b\x0c\x1c\x1d\x1e\x85\u2028\u2029"
_LINE_RE = re.compile("[^%s]*(?:\r\n|[%s])|[^%s]+" % (_SEPS, _SEPS, _SEPS))


class RefPatchError(Exception):
    pass


def split_lines(s):
    """Lines of s with their terminators kept; written from the documented separator table."""
    return _LINE_RE.findall(s)


def _plain(x):
    """Deep copy into plain dict / list (drops NotebookNode / DiffEntry subclasses)."""
    if isinstance(x, dict):
        return {k: _plain(v) for k, v in x.items()}
    if isinstance(x, (list, tuple)):
        return [_plain(v) for v in x]
    return x


def refpatch(obj, diff):
    if isinstance(obj, dict):
        return _patch_map(obj, diff)
    if isinstance(obj, list):
        return _patch_seq(obj, diff, lambda item, d: refpatch(item, d))
    if isinstance(obj, str):
        lines = split_lines(obj)
        out = _patch_seq(lines, diff, _patch_line, joined=True)
        for v in out:
            if not isinstance(v, str):
                raise RefPatchError("non-string line inserted into string")
        return "".join(out)
    raise RefPatchError("cannot patch %s" % type(obj).__name__)


def _patch_line(line, d):
    if not isinstance(line, str):
        raise RefPatchError("line is not a string")
    chars = list(line)
    out = _patch_seq(chars, d, _no_nested, joined=True)
    return "".join(out)


def _no_nested(item, d):
    raise RefPatchError("patch below character level")


def _patch_map(obj, diff):
    if not isinstance(diff, list):
        raise RefPatchError("diff is not a list")
    out = {}
    seen = set()
    removed = set()
    for e in diff:
        op, key = e.get("op"), e.get("key")
        if not isinstance(key, str):
            raise RefPatchError("mapping key is not a string: %r" % (key,))
        if key in seen:
            raise RefPatchError("key targeted twice: %r" % key)
        seen.add(key)
        if op == "add":
            if key in obj:
                raise RefPatchError("add of existing key %r" % key)
            out[key] = _plain(e["value"])
        elif op == "remove":
            if key not in obj:
                raise RefPatchError("remove of missing key %r" % key)
            removed.add(key)
        elif op == "replace":
            if key not in obj:
                raise RefPatchError("replace of missing key %r" % key)
            out[key] = _plain(e["value"])
        elif op == "patch":
            if key not in obj:
                raise RefPatchError("patch of missing key %r" % key)
            if not isinstance(obj[key], (dict, list, str)):
                raise RefPatchError("patch into leaf at key %r" % key)
            if not e["diff"]:
                raise RefPatchError("empty patch at key %r" % key)
            out[key] = refpatch(obj[key], e["diff"])
        else:
            raise RefPatchError("illegal mapping op %r" % (op,))
    for k, v in obj.items():
        if k not in seen:
            out[k] = _plain(v)
    return out


def _patch_seq(seq, diff, patch_item, joined=False):
    if not isinstance(diff, list):
        raise RefPatchError("diff is not a list")
    n = len(seq)
    out = []
    cursor = 0          # next element of A not yet consumed
    last_add_key = None
    prev_key = -1
    for e in diff:
        op, key = e.get("op"), e.get("key")
        if isinstance(key, bool) or not isinstance(key, int):
            raise RefPatchError("sequence key is not an integer: %r" % (key,))
        if key < prev_key:
            raise RefPatchError("sequence ops not sorted by key")
        prev_key = key
        if key < cursor:
            raise RefPatchError("op at %d overlaps consumed range (cursor %d)" % (key, cursor))
        if key > n:
            raise RefPatchError("key %d out of bounds (len %d)" % (key, n))
        out.extend(_plain(v) for v in seq[cursor:key])
        cursor = key
        if op == "addrange":
            if last_add_key == key:
                raise RefPatchError("two addranges at key %d" % key)
            last_add_key = key
            vl = e["valuelist"]
            if joined and isinstance(vl, str):
                vl = [vl] if vl else []
            if not isinstance(vl, list):
                raise RefPatchError("valuelist is not a list")
            out.extend(_plain(v) for v in vl)
        elif op == "removerange":
            ln = e["length"]
            if isinstance(ln, bool) or not isinstance(ln, int) or ln < 0:
                raise RefPatchError("bad removerange length %r" % (ln,))
            if key + ln > n:
                raise RefPatchError("removerange beyond end")
            cursor = key + ln
        elif op == "patch":
            if key >= n:
                raise RefPatchError("patch beyond end")
            if not e["diff"]:
                raise RefPatchError("empty patch at %d" % key)
            if not joined and not isinstance(seq[key], (dict, list, str)):
                raise RefPatchError("patch into leaf at index %d" % key)
            out.append(patch_item(seq[key], e["diff"]))
            cursor = key + 1
        else:
            raise RefPatchError("illegal sequence op %r" % (op,))
    out.extend(_plain(v) for v in seq[cursor:])
    return out
