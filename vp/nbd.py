"""Thin helpers around the nbdime tree under test: state reset, plain-JSON conversion."""
import copy
import itertools
import json

_initial = {}


def plain(x):
    """Deep copy to plain dict/list (NotebookNode, DiffEntry -> dict)."""
    if isinstance(x, dict):
        return {k: plain(v) for k, v in x.items()}
    if isinstance(x, (list, tuple)):
        return [plain(v) for v in x]
    return x


def canon(x):
    return json.dumps(x, sort_keys=True, ensure_ascii=False, allow_nan=False)


def quiet():
    import logging
    logging.getLogger("nbdime").setLevel(logging.CRITICAL)
    logging.getLogger().setLevel(logging.CRITICAL)
    logging.getLogger("traitlets").setLevel(logging.CRITICAL)


def reset_state():
    """Reset nbdime's module-level state at the top of every case (not used by C12)."""
    quiet()
    import nbdime.diffing.notebooks as nbs
    import nbdime.merging.generic as mg
    import nbformat.v4.nbbase as nbbase
    import nbformat.v4 as v4
    if "pred_keys" not in _initial:
        _initial["pred_keys"] = set(nbs.notebook_predicates.keys())
    for k in list(nbs.notebook_predicates.keys()):
        if k not in _initial["pred_keys"]:
            del nbs.notebook_predicates[k]
    nbs.reset_notebook_differ()
    for fn in (getattr(nbs, "compare_text_approximate", None), getattr(nbs, "_compare_mimedata_strings", None)):
        if fn is not None and hasattr(fn, "cache_clear"):
            fn.cache_clear()
    try:
        mg._merge_strings.recursion = False
    except Exception:
        pass
    pin_ids()


_counter = itertools.count()


def pin_ids():
    """nbdime's only internal randomness: uuid cell ids of conflict-marker cells."""
    global _counter
    import nbformat.v4.nbbase as nbbase
    _counter = itertools.count()

    def random_cell_id():
        return "vp%06d" % next(_counter)
    nbbase.random_cell_id = random_cell_id
    try:
        import nbformat.corpus.words as words
        words.generate_corpus_id = random_cell_id
    except Exception:
        pass


def to_nb(d):
    import nbformat
    return nbformat.from_dict(copy.deepcopy(d))
