"""C08  Merge command and git driver: exit status, output file, behaviour on failure."""
import copy
import json
import os
import shutil
import subprocess
import sys
import tempfile

from hypothesis import strategies as st

from ..runner import Outcome, canon, ROOT, REPO
from ..gen import notebooks as N
from ..gen import strategies as S
from ..nbd import plain, reset_state, to_nb
from .c07 import MARKER

ID = "C08"
LEVEL = "fault_enumeration"
RULE = ("cases: generated notebook triples written to files (no duplicate ids), with placeholders (base = /dev/null or an empty file; one input readable "
        "but not a notebook - truncated, a git-lfs pointer, text conflict markers - which must end in a failure status with the output untouched; local "
        "and/or remote = /dev/null), a strategy configuration, an entry point (nbmerge --out, nbmerge to stdout, git merge driver `merge %O %A "
        "%B %L %P`) and arbitrary previous bytes at the output; plus one large case with 256 conflicting cells. For EVERY case the clean run "
        "and the WHOLE single-fault set is executed in child processes (real console entry: sys.exit(main(argv))): fault points = "
        "read_notebook call 1..3, diff_notebooks call 1..2, decide, apply, serialisation, opening the output, each write to it; fault kinds "
        "= I/O error, MemoryError, KeyboardInterrupt, SIGKILL. Oracles: clean run: exit status 0 iff the library merge of the same inputs "
        "has no conflicted decision, the output (for the driver: the %A file) is well-formed JSON equal to the library result, agreed "
        "deletion removes the output and exits 0; faulted run (fault actually reached): exit status != 0 (a signal counts), and if the "
        "fault point precedes the first write the output bytes are identical to before. Non-trivial: the case has conflicts or a "
        "placeholder input and >= 20 faulted runs reached their fault; distinct = canonical JSON of the case.")
ASSUMPTIONS = ["faults are injected at step boundaries and write calls by wrapping the step functions by name in the calling module (vp/faults/child.py), "
               "not at arbitrary instructions", "marker-cell ids are random in the child: ids of conflict-marker cells and of cells the library result leaves "
               "without id are not compared", "git is not involved in this check (the driver is called the way git calls it)"]
SHRINK_KEYS = []

POINTS = [("read_notebook", 1), ("read_notebook", 2), ("read_notebook", 3), ("diff_notebooks", 1), ("diff_notebooks", 2), ("decide", 1), ("apply", 1),
          ("serialise", 1), ("open_output", 1), ("write", 1), ("write", 2)]
KINDS = ["oserror", "memory", "interrupt", "kill"]
BEFORE_WRITE = {"read_notebook", "diff_notebooks", "decide", "apply", "serialise", "open_output"}


def budget(tier):
    return 72 if tier == "quick" else 1200


@st.composite
def scenario(draw):
    base, local, remote, shape = draw(N.triple(max_cells=3))
    ph = draw(st.sampled_from(["none", "none", "none", "none", "base_null", "base_empty", "local_null", "remote_null", "both_null",
                                "base_corrupt", "remote_corrupt", "local_corrupt", "base_stdin"]))
    entry = draw(st.sampled_from(["nbmerge_out", "nbmerge_out", "driver", "driver", "nbmerge_stdout"]))
    args = draw(S.strategy_args(renderers=["git"]))
    if args["merge"] == "mergetool":
        args = S.default_args()
    prev = draw(st.sampled_from(["PREVIOUS BYTES\n", "", "{\"not\": \"a notebook\"}", "ÿþ binary-ish \x00\x01"]))
    # one case in three runs the whole single-fault set (about 40 child processes); the others only the clean run, which is what the
    # placeholder / entry-point / strategy variety needs
    full = draw(st.sampled_from([True, False, False]))
    return {"base": base, "local": local, "remote": remote, "shape": shape, "placeholder": ph, "entry": entry, "args": args, "previous_output": prev,
            "faults": full}


def strategy(tier):
    return scenario()


def exhaustive(tier, shard, nshards):
    """One large case: 256 cells, each conflicting (an exit status must not wrap to 0)."""
    if shard != 0:
        return
    n = 256

    def nb(tag):
        return {"nbformat": 4, "nbformat_minor": 5, "metadata": {}, "cells": [
            {"cell_type": "code", "metadata": {}, "source": "x%d = %s\n" % (i, tag), "execution_count": None, "outputs": [], "id": "c%d" % i}
            for i in range(n)]}
    yield {"base": nb("0"), "local": nb("1"), "remote": nb("2"), "shape": "256_conflicts", "placeholder": "none", "entry": "nbmerge_out",
           "args": S.default_args(), "previous_output": "PREV\n", "faults": False}
    yield {"base": nb("0"), "local": nb("1"), "remote": nb("2"), "shape": "256_conflicts", "placeholder": "none", "entry": "driver",
           "args": S.default_args(), "previous_output": "PREV\n", "faults": False}


def precheck(case):
    for k in ("base", "local", "remote"):
        e = N.schema_errors(case[k])
        if e:
            return "%s not schema-valid: %s" % (k, e[0])
    return None


def strategy_argv(a):
    argv = ["--merge-strategy", a["merge"]]
    if a.get("input"):
        argv += ["--input-strategy", a["input"]]
    if a.get("output"):
        argv += ["--output-strategy", a["output"]]
    if not a.get("transients", True):
        argv += ["--no-ignore-transients"]
    return argv


def normalise(nb, ref):
    """Drop ids that are random in the child: conflict-marker cells, cells that carry no id in the library result, and cells whose id in
    the library result repeats an earlier cell's (nbformat's writer replaces the later duplicate with a random id)."""
    nb = copy.deepcopy(nb)
    rc = ref.get("cells", []) if isinstance(ref, dict) else []
    seen, dup = set(), set()
    for i, c in enumerate(rc):
        if "id" in c:
            if c["id"] in seen:
                dup.add(i)
            seen.add(c["id"])
    for i, c in enumerate(nb.get("cells", [])):
        if i in dup:
            c.pop("id", None)
        src = c.get("source", "")
        src = "".join(src) if isinstance(src, list) else src
        marker = c.get("cell_type") == "markdown" and MARKER.match(src or "")
        if marker or (i < len(rc) and "id" not in rc[i]) or i >= len(rc):
            c.pop("id", None)
    return nb


class Files:
    def __init__(self, case):
        import nbformat
        self.top = tempfile.mkdtemp(prefix="vp_c08_")
        self.paths = {}
        ph = case["placeholder"]
        for name in ("base", "local", "remote"):
            p = os.path.join(self.top, name + ".ipynb")
            null = (name == "base" and ph == "base_null") or (name == "local" and ph in ("local_null", "both_null")) or \
                (name == "remote" and ph in ("remote_null", "both_null"))
            if null:
                self.paths[name] = "/dev/null"
            elif name == "base" and ph == "base_empty":
                open(p, "w").close()
                self.paths[name] = p
            elif ph == name + "_corrupt":
                # readable but not a notebook: cut off part-way, a git-lfs pointer, or text with conflict markers
                text = nbformat.writes(to_nb(case[name]))
                kind = len(text) % 3
                with open(p, "w", encoding="utf8") as f:
                    f.write(text[:max(1, len(text) // 2)] if kind == 0 else
                            "version https://git-lfs.github.com/spec/v1\noid sha256:4d7a214614ab2935c943f9e0ff69d22eadbb8f32b1258daaa5e2ca24d17e2393\nsize 12345\n" if kind == 1 else
                            "<<<<<<< HEAD\n" + text + "=======\n" + text + ">>>>>>> other\n")
                self.paths[name] = p
            else:
                nbformat.write(to_nb(case[name]), p)
                self.paths[name] = p
        self.stdin_file = None
        if ph == "base_stdin":
            # the base streamed in: `git show :1:nb.ipynb | nbmerge /dev/stdin ours theirs`
            self.stdin_file = self.paths["base"]
            self.paths["base"] = "/dev/stdin"
        self.out = os.path.join(self.top, "merged.ipynb")
        self.local_backup = None
        if self.paths["local"] != "/dev/null":
            with open(self.paths["local"], "rb") as f:
                self.local_backup = f.read()
        self.prev = case["previous_output"].encode("utf8", "surrogatepass")

    def reset_outputs(self, entry):
        if entry == "driver":
            if self.local_backup is not None:
                with open(self.paths["local"], "wb") as f:
                    f.write(self.local_backup)
        else:
            with open(self.out, "wb") as f:
                f.write(self.prev)

    def output_path(self, entry):
        if entry == "driver":
            return self.paths["local"]
        return self.out if entry == "nbmerge_out" else None

    def output_bytes(self, entry):
        p = self.output_path(entry)
        if p is None or p == "/dev/null" or not os.path.exists(p):
            return None
        with open(p, "rb") as f:
            return f.read()

    def close(self):
        shutil.rmtree(self.top, ignore_errors=True)


def library_result(case, files):
    """(merged notebook | 'deleted', conflicted?) from the library on the same inputs."""
    import nbformat
    from nbdime.merging.notebooks import merge_notebooks

    def read(name):
        p = files.paths[name]
        if p == "/dev/stdin":
            p = files.stdin_file
        if p == "/dev/null" or os.path.getsize(p) == 0:
            return nbformat.v4.new_notebook()
        return nbformat.read(p, as_version=4)
    if files.paths["local"] == "/dev/null" and files.paths["remote"] == "/dev/null":
        return "deleted", False
    reset_state()
    args = S.build_args(case["args"])
    with S.renderer("git"):
        merged, dec = merge_notebooks(read("base"), read("local"), read("remote"), args)
    return plain(merged), any(d.conflict for d in dec)


def run_child(case, files, plan):
    entry = case["entry"]
    files.reset_outputs(entry)
    planf = os.path.join(files.top, "plan.json")
    fired = os.path.join(files.top, "fired")
    if os.path.exists(fired):
        os.remove(fired)
    with open(planf, "w") as f:
        json.dump(plan, f)
    if entry == "driver":
        argv = ["driver", "merge"] + strategy_argv(case["args"]) + [files.paths["base"], files.paths["local"], files.paths["remote"], "7", "nb.ipynb"]
    elif entry == "nbmerge_out":
        argv = ["nbmerge"] + strategy_argv(case["args"]) + ["--out", files.out, files.paths["base"], files.paths["local"], files.paths["remote"]]
    else:
        argv = ["nbmerge"] + strategy_argv(case["args"]) + [files.paths["base"], files.paths["local"], files.paths["remote"]]
    env = dict(os.environ)
    env["PYTHONPATH"] = os.pathsep.join([REPO, ROOT, os.path.join(ROOT, "stubs"), os.path.join(ROOT, ".deps")])
    env["JUPYTER_CONFIG_DIR"] = files.top
    env["JUPYTER_CONFIG_PATH"] = files.top
    op = files.output_path(entry)
    if op:
        env["VP_OUTPUT_PATH"] = op
    else:
        env.pop("VP_OUTPUT_PATH", None)
    before = files.output_bytes(entry)
    # (a streamed base arrives through a pipe, as in `git show :1:nb.ipynb | nbmerge /dev/stdin ours theirs`)
    feed = {"input": open(files.stdin_file, "rb").read()} if files.stdin_file else {"stdin": subprocess.DEVNULL}
    p = subprocess.run([sys.executable, os.path.join(ROOT, "vp", "faults", "child.py"), planf, fired] + argv, cwd=files.top, env=env,
                       stdout=subprocess.PIPE, stderr=subprocess.PIPE, timeout=600, **feed)
    return {"status": p.returncode, "stdout": p.stdout, "stderr": p.stderr[-400:], "fired": os.path.exists(fired), "before": before,
            "after": files.output_bytes(entry)}


def git_end_to_end(out, case, lib, lib_conflict, detail):
    """The same merge through real `git merge` with the driver configured (git trusts the exit status blindly)."""
    import nbformat
    top = tempfile.mkdtemp(prefix="vp_c08_git_")
    try:
        repo = os.path.join(top, "repo")
        os.makedirs(repo)
        env = dict(os.environ, HOME=top, GIT_CONFIG_GLOBAL=os.path.join(top, "gitconfig"), GIT_CONFIG_NOSYSTEM="1", GIT_AUTHOR_NAME="t",
                   GIT_AUTHOR_EMAIL="t@e", GIT_COMMITTER_NAME="t", GIT_COMMITTER_EMAIL="t@e", LC_ALL="C", JUPYTER_CONFIG_DIR=top,
                   JUPYTER_CONFIG_PATH=top)
        env["PYTHONPATH"] = os.pathsep.join([REPO, ROOT, os.path.join(ROOT, "stubs"), os.path.join(ROOT, ".deps")])
        env.pop("VP_OUTPUT_PATH", None)
        open(env["GIT_CONFIG_GLOBAL"], "w").close()

        def git(*a, check=True):
            p = subprocess.run(["git"] + list(a), cwd=repo, env=env, stdout=subprocess.PIPE, stderr=subprocess.PIPE)
            if check and p.returncode != 0:
                raise RuntimeError("git %s: %s" % (" ".join(a), p.stderr.decode()[:300]))
            return p
        plan, fired = os.path.join(top, "plan.json"), os.path.join(top, "fired")
        with open(plan, "w") as f:
            f.write("{}")
        git("init", "-q", "-b", "main")
        driver = "%s %s %s %s driver merge %s %%O %%A %%B %%L %%P" % (sys.executable, os.path.join(ROOT, "vp", "faults", "child.py"), plan, fired,
                                                                      " ".join(strategy_argv(case["args"])))
        git("config", "merge.jupyternotebook.driver", driver)
        git("config", "merge.jupyternotebook.name", "nbdime under test")
        with open(os.path.join(repo, ".gitattributes"), "w") as f:
            f.write("*.ipynb merge=jupyternotebook\n")
        with open(os.path.join(repo, "readme.txt"), "w") as f:
            f.write("x\n")
        nbfile = os.path.join(repo, "nb.ipynb")
        if case["placeholder"] == "none":
            nbformat.write(to_nb(case["base"]), nbfile)
        git("add", "-A")
        git("commit", "-q", "-m", "base")
        git("checkout", "-q", "-b", "remote")
        nbformat.write(to_nb(case["remote"]), nbfile)
        git("add", "-A")
        git("commit", "-q", "--allow-empty", "-m", "remote")
        git("checkout", "-q", "main")
        nbformat.write(to_nb(case["local"]), nbfile)
        git("add", "-A")
        git("commit", "-q", "--allow-empty", "-m", "local")
        with open(nbfile, "rb") as f:
            local_bytes = f.read()
        same = canon(case["local"]) == canon(case["remote"]) or canon(case["base"]) in (canon(case["local"]), canon(case["remote"])) and case["placeholder"] == "none"
        m = git("merge", "--no-edit", "-q", "remote", check=False)
        out.count("git_merges")
        if same:
            out.count("git_merges_trivial_(driver_not_called)")
            return
        unmerged = bool(git("ls-files", "-u").stdout.strip())
        gd = dict(detail, via="git merge", git_status=m.returncode, stderr=m.stderr.decode("utf8", "replace")[-200:])
        if (m.returncode == 0) != (not lib_conflict):
            out.fail("git_merge_status_iff_no_conflict", "git_status_%s_but_conflict_%s" % ("zero" if m.returncode == 0 else "nonzero", lib_conflict), detail=gd)
        if unmerged != bool(lib_conflict):
            out.fail("git_index_conflict_state", "unmerged_entries_%s_but_conflict_%s" % (unmerged, lib_conflict), detail=gd)
        try:
            with open(nbfile, encoding="utf8") as f:
                got = plain(nbformat.reads(f.read(), as_version=4))
            if canon(normalise(got, lib)) != canon(normalise(lib, lib)):
                out.fail("git_worktree_equals_library_merge", "worktree_file_differs", detail=gd)
        except Exception as e:
            out.fail("git_worktree_equals_library_merge", "worktree_file_unreadable", type(e).__name__, detail=gd)
        # one faulted merge through git: it must not be recorded as a successful merge
        git("merge", "--abort", check=False)
        git("reset", "-q", "--hard", "main")
        with open(plan, "w") as f:
            json.dump({"point": "apply", "call": 1, "kind": "oserror"}, f)
        head = git("rev-parse", "HEAD").stdout
        m = git("merge", "--no-edit", "-q", "remote", check=False)
        out.count("git_merges_with_fault")
        if os.path.exists(fired):
            if m.returncode == 0 or git("rev-parse", "HEAD").stdout != head:
                out.fail("git_fault_never_reports_success", "git_merge_succeeded_after_driver_fault", detail=dict(gd, git_status=m.returncode))
    finally:
        shutil.rmtree(top, ignore_errors=True)


def run_case(case):
    out = Outcome()
    entry = case["entry"]
    out.label("entry_" + entry, "placeholder_" + case["placeholder"], "shape_" + case.get("shape", "?"))
    files = Files(case)
    try:
        if entry == "driver" and files.paths["local"] == "/dev/null":
            # git never calls the driver with a missing %A; use the command instead
            entry = case["entry"] = "nbmerge_out"
        if case["placeholder"].endswith("_corrupt"):
            # reading an input is a step that fails here: no success status, output location untouched
            r = run_child(case, files, {})
            out.count("child_runs")
            out.count("runs_with_unreadable_input")
            detail = {"entry": entry, "placeholder": case["placeholder"], "args": case["args"], "status": r["status"]}
            if r["status"] == 0:
                out.fail("fault_never_reports_success", "exit_status_zero_with_unreadable_input", case["placeholder"], detail=detail)
            if entry != "nbmerge_stdout" and r["before"] != r["after"]:
                out.fail("failure_before_write_leaves_output_untouched", "output_changed", "unreadable input " + case["placeholder"], detail=detail)
            out.nontrivial = True
            out.ntkey = {k: case[k] for k in ("base", "local", "remote", "placeholder", "entry", "args")}
            return out
        try:
            lib, lib_conflict = library_result(case, files)
        except Exception:
            out.count("library_merge_raised_(C03)")
            return out
        detail = {"entry": entry, "placeholder": case["placeholder"], "args": case["args"]}
        if lib != "deleted":
            try:
                import nbformat
                nbformat.writes(to_nb(lib))
            except Exception:
                # the library's own result cannot be serialised by nbformat (the recorded finding D6b: a merged cell whose id is a
                # dict): writing it is a step that fails, so the command must not report success and must leave the output alone
                r = run_child(case, files, {})
                out.count("child_runs")
                out.count("runs_whose_library_result_cannot_be_written_(D6b)")
                if r["status"] == 0:
                    out.fail("fault_never_reports_success", "exit_status_zero_although_result_unwritable", detail=detail)
                if entry != "nbmerge_stdout" and r["before"] != r["after"]:
                    out.fail("failure_before_write_leaves_output_untouched", "output_changed", "unwritable library result", detail=detail)
                out.nontrivial = True
                out.ntkey = {k: case[k] for k in ("base", "local", "remote", "placeholder", "entry", "args")}
                return out
        # ---- clean run
        r = run_child(case, files, {})
        out.count("child_runs")
        if lib == "deleted":
            if r["status"] != 0:
                out.fail("agreed_deletion", "nonzero_status", "status %s" % r["status"], detail=detail)
            if entry == "nbmerge_out" and os.path.exists(files.out):
                out.fail("agreed_deletion", "output_not_removed", detail=detail)
        else:
            if (r["status"] == 0) != (not lib_conflict):
                out.fail("exit_status_iff_no_conflict", "status_%s_but_conflict_%s" % ("zero" if r["status"] == 0 else "nonzero", lib_conflict),
                         detail=dict(detail, status=r["status"], stderr=r["stderr"].decode("utf8", "replace")[-200:]))
            data = r["stdout"] if entry == "nbmerge_stdout" else r["after"]
            try:
                got = json.loads((data or b"").decode("utf8"))
                import nbformat
                got = plain(nbformat.reads(json.dumps(got), as_version=4))
                if canon(normalise(got, lib)) != canon(normalise(lib, lib)):
                    from .c02 import _first_difference
                    out.fail("output_equals_library_merge", "output_differs", _first_difference(normalise(got, lib), normalise(lib, lib)), detail=detail)
            except Exception as e:
                out.fail("output_is_wellformed_json", "output_unreadable", type(e).__name__, detail=dict(detail, status=r["status"]))
        # ---- the whole single-fault set
        reached = 0
        if case.get("faults", True):
            for point, call in POINTS:
                for kind in KINDS:
                    if entry == "nbmerge_stdout" and point in ("open_output", "write"):
                        continue
                    r = run_child(case, files, {"point": point, "call": call, "kind": kind})
                    out.count("child_runs")
                    if not r["fired"]:
                        out.count("fault_point_not_reached")
                        break       # this point does not occur in this run (e.g. 3rd read for an agreed deletion)
                    reached += 1
                    out.count("faults_reached")
                    out.count("fault_at_" + point)
                    fd = dict(detail, fault={"point": point, "call": call, "kind": kind}, status=r["status"])
                    if r["status"] == 0:
                        out.fail("fault_never_reports_success", "exit_status_zero_after_fault", "%s at %s" % (kind, point), detail=fd)
                    if point in BEFORE_WRITE and entry != "nbmerge_stdout" and r["before"] != r["after"]:
                        out.fail("failure_before_write_leaves_output_untouched", "output_changed", "%s at %s" % (kind, point), detail=fd)
        if case["placeholder"] in ("none", "base_null", "base_empty") and lib != "deleted" and case.get("faults", True):
            git_end_to_end(out, case, lib, lib_conflict, detail)
        out.count("faults_reached_total", 0)
        out.nontrivial = (lib_conflict or case["placeholder"] != "none") and (reached >= 20 or not case.get("faults", True))
    finally:
        files.close()
    out.ntkey = {k: case[k] for k in ("base", "local", "remote", "placeholder", "entry", "args")}
    return out


DISCRIMINATORS = {}
