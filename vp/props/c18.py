"""C18  Git integration setup is idempotent and never touches foreign settings."""
import io
import os
import shutil
import subprocess
import sys
import tempfile

from hypothesis import strategies as st

from ..runner import Outcome, canon

ID = "C18"
LEVEL = "exploration"
RULE = ("histories against real git in an isolated HOME / XDG_CONFIG_HOME: an initial configuration is drawn (merge.tool and diff.guitool each "
        "unset / nbdime / another tool (incl. names that contain 'nbdime'), independently at repository and global level; difftool.prompt / mergetool.prompt unset/true/false; "
        "attributes file absent, holding unrelated rules with or without a final newline, or already holding nbdime's lines; an unrelated "
        "[diff \"other\"] driver; a quarter of the repositories have a gitfile .git), then 1-6 commands from the eight enable/disable functions (with and without --set-default, repository or "
        "global scope) and the combined `nbdime config-git --enable/--disable` (real dispatcher). After every command: (idempotence) repeating "
        "an enable changes nothing; (minimality) only keys of the command's documented own set change, in the addressed scope only, the "
        "attributes file keeps its previous bytes as a prefix, every previous line stays a line and at most one line per driver is added; "
        "(effect) after enabling a driver `git check-attr` routes *.ipynb to jupyternotebook and the driver keys are set, after disabling the "
        "driver sections are gone; (foreign settings) every key whose value names another tool and every foreign section is byte-identical. "
        "Non-trivial: the initial state holds a foreign setting and a disable follows an enable; distinct = canonical JSON of the program.")
ASSUMPTIONS = ["git on PATH, isolated with HOME, XDG_CONFIG_HOME, GIT_CONFIG_GLOBAL in a temp dir and GIT_CONFIG_NOSYSTEM=1",
               "jupyter_server / jinja2 stubs on sys.path so the tool modules import", "system scope is not exercised (needs root-owned files)"]
SHRINK_KEYS = ["commands"]
SHRINK_EVALS = 80

COMPONENTS = ["diffdriver", "mergedriver", "difftool", "mergetool"]
OWN = {
    "diffdriver": {"diff.jupyternotebook.command"},
    "mergedriver": {"merge.jupyternotebook.driver", "merge.jupyternotebook.name"},
    "difftool": {"difftool.nbdime.cmd", "difftool.prompt"},
    "mergetool": {"mergetool.nbdime.cmd", "mergetool.prompt"},
}
DEFAULT_KEY = {"difftool": "diff.guitool", "mergetool": "merge.tool"}
ATTR_LINE = {"diffdriver": "*.ipynb\tdiff=jupyternotebook", "mergedriver": "*.ipynb\tmerge=jupyternotebook"}
FOREIGN_ATTRS = ["*.csv text eol=lf", "*.png binary\n", "*.md diff=markdown\n*.txt text", "# comment only\n", "*.py diff=python\n\n",
                 # a byte that is not UTF-8 (a Latin-1 comment; written as the byte 0xE9 in place of <E9>): git reads such files
                 "# caf<E9> rules\n*.csv text\n",
                 # rules that mention nbdime's drivers without routing *.ipynb to them: commented out by the user after an earlier enable /
                 # restricted to one directory
                 "# *.ipynb\tdiff=jupyternotebook\n# *.ipynb\tmerge=jupyternotebook\n",
                 "docs/*.ipynb diff=jupyternotebook merge=jupyternotebook\n",
                 # another tool's rules for the same pattern and the same attributes (what `nbstripout --install --attributes` writes; a
                 # user switching notebook diffs off)
                 "*.ipynb filter=nbstripout\n*.ipynb diff=ipynb\n", "*.ipynb -diff -merge\n"]


def budget(tier):
    return 400 if tier == "quick" else 4000


def valid(case):
    # (keeps the shrinker inside the command grammar)
    for c in case["commands"]:
        if not isinstance(c, list) or not c:
            return False
        if c[0] in ("config-git-enable", "config-git-disable"):
            if len(c) != 2 or c[1] not in ("local", "global"):
                return False
        elif c[0] in ("enable", "disable"):
            if len(c) != 4 or c[1] not in COMPONENTS or c[2] not in ("local", "global") or not isinstance(c[3], bool):
                return False
        else:
            return False
    init = case["init"]
    return bool(case["commands"]) and all(isinstance(init.get(k), dict) for k in ("local", "global"))


@st.composite
def program(draw):
    tools = st.sampled_from([None, None, "nbdime", "nbdime", "meld", "kdiff3", "nbdime-vscode", "my-nbdime"])
    prompts = st.sampled_from([None, None, "true", "false"])
    init = {
        "local": {"merge.tool": draw(tools), "diff.guitool": draw(tools), "difftool.prompt": draw(prompts), "mergetool.prompt": draw(prompts)},
        "global": {"merge.tool": draw(tools), "diff.guitool": draw(tools), "difftool.prompt": draw(prompts), "mergetool.prompt": draw(prompts)},
        "attrs_local": draw(st.sampled_from([None, None] + FOREIGN_ATTRS + ["*.ipynb\tdiff=jupyternotebook\n", "*.csv text\n\n*.ipynb\tmerge=jupyternotebook\n"])),
        "attrs_global": draw(st.sampled_from([None, None] + FOREIGN_ATTRS)),
        "other_driver": draw(st.booleans()),
        # a repository whose .git is a gitfile (git init --separate-git-dir; same shape as a linked work tree or a submodule)
        "gitfile": draw(st.sampled_from([False, False, False, True])),
    }
    cmds = []
    for _ in range(draw(st.integers(1, 6))):
        k = draw(st.sampled_from(["enable", "enable", "disable", "config-git-enable", "config-git-disable"]))
        scope = draw(st.sampled_from(["local", "local", "global"]))
        if k.startswith("config-git"):
            cmds.append([k, scope])
        else:
            cmds.append([k, draw(st.sampled_from(COMPONENTS)), scope, draw(st.booleans())])
    return {"init": init, "commands": cmds}


def strategy(tier):
    return program()


class Sandbox:
    def __init__(self, init):
        self.top = tempfile.mkdtemp(prefix="vp_c18_")
        self.home = os.path.join(self.top, "home")
        self.repo = os.path.join(self.top, "repo")
        self.xdg = os.path.join(self.home, ".config")
        os.makedirs(self.repo)
        os.makedirs(os.path.join(self.xdg, "git"))
        self.global_cfg = os.path.join(self.home, ".gitconfig")
        open(self.global_cfg, "w").close()
        self.env = {"HOME": self.home, "XDG_CONFIG_HOME": self.xdg, "GIT_CONFIG_GLOBAL": self.global_cfg, "GIT_CONFIG_NOSYSTEM": "1", "LC_ALL": "C"}
        self.saved_env = dict(os.environ)
        self.saved_cwd = os.getcwd()
        os.environ.update(self.env)
        if init.get("gitfile"):
            self.git("init", "-q", "-b", "main", "--separate-git-dir", os.path.join(self.top, "gitdir"))
        else:
            self.git("init", "-q", "-b", "main")
        os.chdir(self.repo)
        for scope in ("local", "global"):
            for k, v in init[scope].items():
                if v is not None:
                    self.git("config", "--" + scope, k, v)
        if init["other_driver"]:
            self.git("config", "--local", "diff.other.command", "other-differ")
            self.git("config", "--global", "merge.ours-driver.driver", "true")
        self.attr_files = {"local": os.path.join(self.repo, ".gitattributes"), "global": os.path.join(self.xdg, "git", "attributes")}
        for scope in ("local", "global"):
            txt = init["attrs_" + scope]
            if txt is not None:
                with io.open(self.attr_files[scope], "wb") as f:
                    f.write(txt.encode("utf8").replace(b"<E9>", b"\xe9"))

    def git(self, *args, check=True):
        p = subprocess.run(["git"] + list(args), cwd=self.repo, stdout=subprocess.PIPE, stderr=subprocess.PIPE)
        if check and p.returncode != 0:
            raise RuntimeError("git %s: %s" % (" ".join(args), p.stderr.decode()[:200]))
        return p.stdout.decode()

    def config(self, scope):
        out = self.git("config", "--" + scope, "--list", "-z", check=False)
        items = []
        for tok in out.split("\0"):
            if tok:
                k, _, v = tok.partition("\n")
                items.append((k, v))
        return sorted(items)

    def attrs(self, scope):
        p = self.attr_files[scope]
        if not os.path.exists(p):
            return None
        with open(p, "rb") as f:
            return f.read()

    def snapshot(self):
        return {"cfg_local": self.config("local"), "cfg_global": self.config("global"),
                "attrs_local": self.attrs("local"), "attrs_global": self.attrs("global"),
                "check_attr": self.git("check-attr", "diff", "merge", "text", "eol", "binary", "--", "x.ipynb", "t.csv", "i.png", "d.md", "s.py", "n.txt", check=False)}

    def close(self):
        os.chdir(self.saved_cwd)
        os.environ.clear()
        os.environ.update(self.saved_env)
        shutil.rmtree(self.top, ignore_errors=True)


def run_command(cmd):
    """Execute one setup command in-process (the functions shell out to `git config`)."""
    saved = (sys.stdout, sys.stderr, sys.argv[:])
    sys.stdout, sys.stderr = io.StringIO(), io.StringIO()
    # git's own messages ('no such section') go to the inherited stderr: silence fd 2 for the duration
    devnull = os.open(os.devnull, os.O_WRONLY)
    fd2 = os.dup(2)
    os.dup2(devnull, 2)
    try:
        return _run_command(cmd)
    finally:
        os.dup2(fd2, 2)
        os.close(fd2)
        os.close(devnull)
        sys.stdout, sys.stderr, sys.argv[:] = saved


def _run_command(cmd):
    saved = (sys.stdout, sys.stderr, sys.argv[:])
    try:
        if cmd[0] in ("config-git-enable", "config-git-disable"):
            from nbdime.__main__ import main_dispatch
            argv = ["config-git", "--enable" if cmd[0].endswith("enable") else "--disable"]
            if cmd[1] == "global":
                argv.append("--global")
            sys.argv[:] = ["nbdime"]
            return main_dispatch(argv)
        import importlib
        mod = importlib.import_module("nbdime.vcs.git." + cmd[1])
        scope = None if cmd[2] == "local" else "global"
        fn = getattr(mod, cmd[0])
        if cmd[1] in ("difftool", "mergetool"):
            return fn(scope, cmd[3])
        return fn(scope)
    finally:
        sys.stdout, sys.stderr, sys.argv[:] = saved


def components_of(cmd):
    if cmd[0].startswith("config-git"):
        return [(c, False) for c in COMPONENTS]
    return [(cmd[1], bool(cmd[3]) and cmd[1] in DEFAULT_KEY)]


def foreign(cfg):
    """Config entries that are not nbdime's: other tools named by the default keys, and sections nbdime does not own."""
    own_keys = set().union(*OWN.values())
    out = []
    for k, v in cfg:
        if k in own_keys or k.startswith(("diff.jupyternotebook.", "merge.jupyternotebook.", "difftool.nbdime.", "mergetool.nbdime.")):
            continue
        if k in DEFAULT_KEY.values() and v == "nbdime":
            continue
        out.append((k, v))
    return out


def check_step(out, sb, cmd, before, after, label):
    scope = cmd[1] if cmd[0].startswith("config-git") else cmd[2]
    other = "global" if scope == "local" else "local"
    enable = "enable" in cmd[0]
    comps = components_of(cmd)
    detail = {"command": cmd, "when": label}
    # nothing in the other scope changes
    if before["cfg_" + other] != after["cfg_" + other]:
        out.fail("only_addressed_scope", "other_scope_config_changed", other, detail=detail)
    if before["attrs_" + other] != after["attrs_" + other]:
        out.fail("only_addressed_scope", "other_scope_attributes_changed", other, detail=detail)
    # foreign settings untouched
    fb, fa = foreign(before["cfg_" + scope]), foreign(after["cfg_" + scope])
    allowed_new = set()
    if enable:
        for c, setdef in comps:
            if setdef:
                allowed_new.add(DEFAULT_KEY[c])
    lost = [kv for kv in fb if kv not in fa and not (kv[0] in allowed_new)]
    gained = [kv for kv in fa if kv not in fb]
    if lost:
        out.fail("foreign_settings_untouched", "foreign_setting_removed_or_changed", "%s=%s" % lost[0], detail=detail)
    if gained:
        out.fail("foreign_settings_untouched", "foreign_setting_added", "%s" % gained[0][0], detail=detail)
    # own keys: only those of the addressed components may change
    own_allowed = set()
    for c, setdef in comps:
        own_allowed |= OWN[c]
        own_allowed.add(DEFAULT_KEY.get(c, ""))
    changed = {k for k, v in set(before["cfg_" + scope]) ^ set(after["cfg_" + scope])}
    extra = sorted(k for k in changed if k not in own_allowed)
    if extra:
        out.fail("minimal_change", "unrelated_key_changed", extra[0], detail=detail)
    # attributes
    ab, aa = before["attrs_" + scope], after["attrs_" + scope]
    if ab is not None and (aa is None or not aa.startswith(ab)):
        out.fail("attributes_kept", "previous_content_not_a_prefix", detail=detail)
    elif aa is not None:
        old_lines = [l for l in (ab or b"").splitlines() if l.strip()]
        new_lines = aa.splitlines()
        missing = [l for l in old_lines if l not in new_lines]
        if missing:
            out.fail("attributes_kept", "previous_rule_no_longer_a_line", detail=dict(detail, line=missing[0].decode("utf8", "replace")))
        added = [l for l in new_lines[len((ab or b"").splitlines()):] if l.strip()] if not missing else []
        drivers = [c for c, _ in comps if c in ATTR_LINE]
        if not enable and aa != (ab or aa if ab is None else ab) and ab is not None and aa != ab:
            out.fail("attributes_kept", "disable_changed_attributes", detail=detail)
        if enable and len(added) > len(drivers):
            out.fail("minimal_change", "more_than_one_attributes_line_per_driver", detail=detail)
    # effect
    cfg = dict(after["cfg_" + scope])
    for c, _ in comps:
        if c not in ATTR_LINE:
            continue
        sect = "diff.jupyternotebook." if c == "diffdriver" else "merge.jupyternotebook."
        has = any(k.startswith(sect) for k in cfg)
        if enable and not has:
            out.fail("enable_registers_driver", "driver_keys_missing", c, detail=detail)
        if not enable and has:
            out.fail("disable_removes_driver", "driver_section_still_present", c, detail=detail)
        if enable:
            attr = "diff" if c == "diffdriver" else "merge"
            want = "x.ipynb: %s: jupyternotebook" % attr
            # a rule of the repository's own attributes file beats the global one: a global enable cannot be asked to route
            # notebooks that the repository routes elsewhere
            shadowed = scope == "global" and any(
                l.split()[:1] == [b"*.ipynb"] and any(f.lstrip(b"-!").split(b"=")[0] == attr.encode() for f in l.split()[1:])
                for l in (after["attrs_local"] or b"").splitlines())
            if shadowed:
                out.count("global_enable_shadowed_by_a_repository_rule")
            elif want not in after["check_attr"]:
                out.fail("enable_routes_notebooks", "check_attr_does_not_route", c, detail=dict(detail, check_attr=after["check_attr"][:200]))
    # foreign attribute rules still effective
    for line in before["check_attr"].splitlines():
        if not line.startswith("x.ipynb") and line not in after["check_attr"].splitlines():
            out.fail("attributes_kept", "foreign_attribute_rule_changed", line.split(":")[0] + " " + line.split(":")[1].strip(), detail=detail)
            break


def run_case(case):
    out = Outcome()
    init = case["init"]
    sb = Sandbox(init)
    try:
        had_foreign = any(v not in (None, "nbdime") for s in ("local", "global") for k, v in init[s].items() if k in DEFAULT_KEY.values()) or \
            any(init[k] for k in ("attrs_local", "attrs_global"))
        seen_enable = False
        nt = False
        for cmd in case["commands"]:
            before = sb.snapshot()
            out.count("commands")
            out.count("cmd_" + cmd[0])
            try:
                run_command(cmd)
            except BaseException as e:
                if isinstance(e, KeyboardInterrupt):
                    raise
                out.fail_exc("command_completes", e, detail={"command": cmd})
                break
            after = sb.snapshot()
            check_step(out, sb, cmd, before, after, "first run")
            if "enable" in cmd[0]:
                seen_enable = True
                try:
                    run_command(cmd)
                except BaseException as e:
                    if isinstance(e, KeyboardInterrupt):
                        raise
                    out.fail_exc("command_completes", e, detail={"command": cmd, "when": "repeat"})
                    break
                again = sb.snapshot()
                if canon(_j(again)) != canon(_j(after)):
                    diffk = [k for k in after if after[k] != again[k]]
                    out.fail("idempotent", "second_enable_changes_state", ",".join(diffk), detail={"command": cmd})
            elif seen_enable and had_foreign:
                nt = True
        out.nontrivial = nt
    finally:
        sb.close()
    out.ntkey = case
    return out


def _j(snap):
    return {k: (v.decode("utf8", "replace") if isinstance(v, bytes) else v) for k, v in snap.items()}


DISCRIMINATORS = {}
