"""C04  A merged notebook always validates against its declared notebook format."""
import json
import os

from hypothesis import strategies as st

from ..runner import Outcome
from ..gen import notebooks as N
from ..gen import strategies as S
from .. import mergeutil as M
from .c01 import cli_env, _workdir
from ..nbd import to_nb, reset_state, plain

ID = "C04"
LEVEL = "exploration"
RULE = ("same triple x strategy x renderer space as C03 (schema-valid inputs of every minor 0-5, forced conflict shapes of every kind). "
        "Oracle: the merged notebook returned by merge_notebooks validates (jsonschema Draft4, non-mutating, on a deep copy) against "
        "nbformat's v4.<minor> schema for the minor it declares, and cell ids are unique; for one configuration per case the file "
        "written by `nbmerge --out f` (real nbmergeapp.main in-process) is loaded with json.load and validated the same way. Merges that "
        "raise are C03's subject and are only counted. Non-trivial: the merge produced a conflicted decision or a 'custom' action (a "
        "conflict-rendering path fired); distinct = canonical JSON of (triple, configuration).")
ASSUMPTIONS = ["nbformat's own nbformat.v4.<minor>.schema.json files are the format definition", "inputs are schema-valid by construction (checked)",
               "nbformat.validate is not used because it repairs notebooks in place"]
SHRINK_KEYS = ["base", "local", "remote"]
SHRINK_EVALS = 600


def valid(case):
    return all(not N.schema_errors(case[k]) for k in ("base", "local", "remote"))


def precheck(case):
    for k in ("base", "local", "remote"):
        e = N.schema_errors(case[k])
        if e:
            return "%s is not schema-valid: %s" % (k, e[0])
    return None


def budget(tier):
    return 6000 if tier == "quick" else 24000


def strategy(tier):
    N.enable_long_texts(tier == "thorough")
    k = 5 if tier == "quick" else 24
    return st.tuples(N.triple(), st.lists(S.strategy_args(), min_size=k, max_size=k)).map(
        lambda t: {"base": t[0][0], "local": t[0][1], "remote": t[0][2], "shape": t[0][3], "combos": t[1]})


def _classify(err):
    import re
    err = re.sub(r"'([^']{25,})'", "'...'", err)
    err = re.sub(r"\{.*\}", "{..}", err)
    err = re.sub(r"\[.*\]", "[..]", err)
    err = re.sub(r"/cells/\d+", "/cells/N", err)
    err = re.sub(r"/outputs/\d+", "/outputs/N", err)
    return err


def _offender(nb, err):
    """The cell an error message points at (for known-finding discriminators)."""
    import re
    m = re.search(r"/cells/(\d+)", err)
    if m and int(m.group(1)) < len(nb.get("cells", [])):
        return nb["cells"][int(m.group(1))]
    return None


def run_case(case):
    out = Outcome()
    base, local, remote = case["base"], case["local"], case["remote"]
    out.label("shape_" + case.get("shape", "?"), "base_minor_%d" % base["nbformat_minor"])
    nt = False
    seen = set()
    for idx, a in enumerate(case["combos"]):
        key = M.combo_label(a)
        if key in seen:
            continue
        seen.add(key)
        merged, dec, exc = M.run_merge(base, local, remote, a)
        if exc is not None:
            out.count("merge_raised_(C03)")
            continue
        out.count("merges_validated")
        fired = any(d.get("conflict") or d.get("action") == "custom" for d in dec)
        if fired:
            nt = True
            out.count("merges_with_conflict_rendering")
        if N.has_duplicate_ids(merged):
            out.count("merged_has_duplicate_ids_(not_a_schema_matter)")
        errs = N.schema_errors(merged, unique_ids=False)
        for e in errs[:2]:
            out.fail("merged_validates", "schema_invalid", _classify(e),
                     detail={"args": a, "error": e, "declared_minor": merged.get("nbformat_minor"), "cell": _offender(merged, e),
                             "input_minors": [x["nbformat_minor"] for x in (base, local, remote)]})
        if idx == 0:
            file_clause(out, base, local, remote, a)
    out.nontrivial = nt
    out.ntkey = [base, local, remote, case["combos"]]
    return out


def file_clause(out, base, local, remote, a):
    import nbformat
    from nbdime import nbmergeapp
    d = _workdir()
    paths = {n: os.path.join(d, n + ".ipynb") for n in ("base", "local", "remote", "merged")}
    for n, nb in (("base", base), ("local", local), ("remote", remote)):
        nbformat.write(to_nb(nb), paths[n])
    if os.path.exists(paths["merged"]):
        os.remove(paths["merged"])
    argv = []
    if a["merge"] != "mergetool":
        argv += ["--merge-strategy", a["merge"]]
    else:
        return
    if a.get("input"):
        argv += ["--input-strategy", a["input"]]
    if a.get("output"):
        argv += ["--output-strategy", a["output"]]
    if not a.get("transients", True):
        argv += ["--no-ignore-transients"]
    argv += ["--out", paths["merged"], paths["base"], paths["local"], paths["remote"]]
    reset_state()
    try:
        with cli_env("nbmerge"), S.renderer(a.get("renderer", "git")):
            nbmergeapp.main(argv)
    except BaseException as e:
        if isinstance(e, KeyboardInterrupt):
            raise
        out.count("nbmerge_raised_(C03/C08)")
        return
    if not os.path.exists(paths["merged"]):
        out.count("nbmerge_no_output")
        return
    out.count("files_validated")
    try:
        with open(paths["merged"], encoding="utf8") as f:
            nb = json.load(f)
    except Exception as e:
        out.fail("merged_file_validates", "file_not_json", str(e))
        return
    for e in N.schema_errors(nb, unique_ids=False)[:2]:
        out.fail("merged_file_validates", "schema_invalid", _classify(e),
                 detail={"args": a, "error": e, "declared_minor": nb.get("nbformat_minor"), "cell": _offender(nb, e),
                         "input_minors": [x["nbformat_minor"] for x in (base, local, remote)]})


def _detail(f):
    return f.get("detail") or {}


MARKER_SOURCES = ('<span style="color:red"><b><<<<<<< local</b></span>', '<span style="color:red"><b>=======</b></span>',
                  '<span style="color:red"><b>>>>>>>> remote</b></span>')


def _src(c):
    s = c.get("source")
    return "".join(s) if isinstance(s, list) else s


def _marker_cell_with_id_before_4_5(case, f):
    d = _detail(f)
    c = d.get("cell") or {}
    return ("'id' was unexpected" in d.get("error", "") and d.get("declared_minor", 5) < 5
            and c.get("cell_type") == "markdown" and _src(c) in MARKER_SOURCES)


def _dict_valued_id_of_similar_insert(case, f):
    c = _detail(f).get("cell") or {}
    return isinstance(c.get("id"), dict) and set(c["id"]) == {"local_id", "remote_id"}


def _minors_disagree(case, f):
    """ids are required from 4.5 and forbidden before: when the three inputs do not share one minor the merged notebook
    can combine a minor from one side with id-less / id-carrying cells from another."""
    d = _detail(f)
    c = d.get("cell") or {}
    ms = d.get("input_minors") or []
    if len(set(ms)) < 2 or isinstance(c.get("id"), dict):
        return False
    # the declared minor itself must be the documented one (one-sided change adopted, else the highest: 'take-max')
    b_, l_, r_ = ms
    expected = r_ if l_ == b_ else l_ if (r_ == b_ or l_ == r_) else max(ms)
    if d.get("declared_minor") != expected:
        return False
    if "'id' is a required property" in d.get("error", ""):
        return d.get("declared_minor") == 5 and min(ms) < 5 and "id" not in c
    if "'id' was unexpected" in d.get("error", ""):
        return d.get("declared_minor", 5) < 5 and max(ms) >= 5
    return False


def _strip_ec(outputs):
    return [{k: v for k, v in o.items() if k != "execution_count"} for o in outputs or []]


def _field_changed(b, o, K, transients):
    from ..runner import canon
    if K == "execution_count":
        return (not transients) and b.get(K) != o.get(K)
    if K == "outputs":
        bo, oo = b.get(K), o.get(K)
        if transients:
            bo, oo = _strip_ec(bo), _strip_ec(oo)
        return canon(bo) != canon(oo)
    return canon(b.get(K)) != canon(o.get(K))


def _same_cell_triples(case, c):
    """(base, local, remote) versions of what may be the cell `c` of the merged notebook: matched by id, by equal source,
    or by position (sides may have re-id'ed cells by changing the minor, or moved them)."""
    B, L, R = (case[k]["cells"] for k in ("base", "local", "remote"))

    def same(x, y, i, j):
        if isinstance(x.get("id"), str) and x.get("id") == y.get("id"):
            return True
        if x.get("source") and x.get("source") == y.get("source"):
            return True
        return i == j
    out = []
    for i, b in enumerate(B):
        ls = [l for j, l in enumerate(L) if same(b, l, i, j)]
        rs = [r for j, r in enumerate(R) if same(b, r, i, j)]
        out += [(b, l, r) for l in ls for r in rs]
    return out


def _type_change_vs_field_edit(case, f):
    """One side changed the cell's type (dropping type-specific fields), the other side changed such a field non-transiently."""
    import re
    d = _detail(f)
    c = d.get("cell") or {}
    err = d.get("error", "")
    if "unexpected" in err:
        names = re.findall(r"'(\w+)'", err.split("unexpected")[0])
    else:
        names = re.findall(r"^'(\w+)' is a required property", err)
    if not names or any(K not in ("outputs", "execution_count", "attachments") for K in names):
        return False
    transients = (d.get("args") or {}).get("transients", True)
    triples = _same_cell_triples(case, c)
    for b, l, r in triples:
        for typ_side, other in ((l, r), (r, l)):
            if typ_side["cell_type"] != b["cell_type"] and other["cell_type"] == b["cell_type"] and all(
                    _field_changed(b, other, K, transients) for K in names):
                return True
    # the heuristics above follow ids, sources and positions; unrelated notebooks are aligned by the differ in its own way, so ask it:
    # some base cell gets a cell_type change from one side and a change of the offending field(s) from the other
    touched = {}
    for side in ("local", "remote"):
        touched[side] = _cell_keys_changed(case["base"], case[side])
    for i in set(touched["local"]) & set(touched["remote"]):
        for typ_side, other in (("local", "remote"), ("remote", "local")):
            keys_t, _ = touched[typ_side][i]
            keys_o, cell_o = touched[other][i]
            if "cell_type" in keys_t and "cell_type" not in keys_o and cell_o is not None and all(
                    _field_changed(case["base"]["cells"][i], cell_o, K, transients) for K in names):
                return True
    return False


def _cell_keys_changed(base, other):
    """{index of base cell: (keys of that cell the differ reports as changed, the other notebook's version of the cell)} for the cells the
    differ aligns between the two notebooks."""
    import nbdime
    reset_state()
    try:
        d = plain(nbdime.diff_notebooks(to_nb(base), to_nb(other)))
    except Exception:
        return {}
    finally:
        reset_state()
    out = {}
    for e in d:
        if e.get("op") == "patch" and e.get("key") == "cells":
            for ce in e["diff"]:
                if ce.get("op") == "patch":
                    try:
                        from ..oracles.refpatch import refpatch
                        cell = refpatch(base["cells"][ce["key"]], ce["diff"])
                    except Exception:
                        cell = None
                    out[ce["key"]] = ({x.get("key") for x in ce["diff"]}, cell)
    return out


def _both_sides_change_cell_type(case, f):
    """Both sides gave the same base cell another cell_type (the merger's documented 'should never conflict' field)."""
    import re
    d = _detail(f)
    c = d.get("cell") or {}
    err = d.get("error", "")
    names = re.findall(r"'(\w+)'", err.split("unexpected")[0]) if "unexpected" in err else re.findall(r"^'(\w+)' is a required property", err)
    if not names or any(K not in ("outputs", "execution_count", "attachments") for K in names):
        return False
    B, L, R = (case[k]["cells"] for k in ("base", "local", "remote"))
    if isinstance(c.get("id"), str):
        def find(cells):
            return [x for x in cells if x.get("id") == c["id"]]
        triples = [(b, l, r) for b in find(B) for l in find(L) for r in find(R)]
        if not find(B) and any(l["cell_type"] != r["cell_type"] for l in find(L) for r in find(R)):
            return True       # inserted on both sides under one id with different types
        if not triples:
            # the id itself was changed by a side: fall back to the other side's id / position
            triples = [(b, l, r) for b, l, r in zip(B, L, R)]
    else:
        triples = list(zip(B, L, R))
    return any(l["cell_type"] != b["cell_type"] and r["cell_type"] != b["cell_type"] for b, l, r in triples)


DISCRIMINATORS = {
    "both_sides_change_cell_type": _both_sides_change_cell_type,
    "one_side_changes_cell_type_other_edits_type_specific_field": _type_change_vs_field_edit,
    "dict_valued_id_of_similar_insert": _dict_valued_id_of_similar_insert,
    "input_minors_disagree_about_ids": _minors_disagree,
}
