"""C17  Diffing git revisions examines exactly the notebooks git reports as changed."""
import json
import os
import shutil
import subprocess
import tempfile

from hypothesis import strategies as st

from ..runner import Outcome, canon

ID = "C17"
LEVEL = "exploration"
RULE = ("histories: generated programs over a real temporary git repository (isolated HOME / git config): write, edit, delete, git-mv of "
        "notebook and non-notebook files in nested directories, stage, commit, leaving staged and unstaged changes; then 1-4 queries, each "
        "a ref pair (commit/commit, commit/index, commit/working tree, index/working tree), a cwd (repository root or a sub-directory) and "
        "optional path filters, answered by nbdime.gitfiles.changed_notebooks (a third of the commit queries through the nbdiff command line, incl. `nbdiff <path>` "
        "with HEAD omitted; half of the repositories carry a tag named like a directory of the work tree). Oracle = git itself: the multiset of yielded (base, remote) "
        "contents equals the .ipynb entries of `git diff -M --name-status -z <refs> -- <paths>` run from the same cwd, each side's content "
        "equal to `git show <ref>:<path>` / `git show :<path>` / the working-tree file, the null file exactly for added / deleted entries, "
        "renames paired old-name@base with new-name@remote; non-notebooks never yielded; os.getcwd() is unchanged after every yielded pair "
        "and after exhaustion. Non-trivial: >=2 changed notebooks in one comparison with cwd != root or the working tree involved; distinct = "
        "canonical JSON of the program.")
ASSUMPTIONS = ["git 2.x on PATH is the reference", "file contents are small notebook JSON texts (changed_notebooks never parses them)",
               "no git filters are configured in the temporary repository"]
SHRINK_KEYS = ["ops", "queries"]
SHRINK_EVALS = 120

FILES = ["a.ipynb", "b.ipynb", "sub/c.ipynb", "sub/deep/d.ipynb", "sub/e.txt", "f.py", "sub/deep/g.ipynb", "other/h.ipynb"]
DIRS = ["", "sub", "sub/deep", "other"]
NULL = "/dev/null"


def budget(tier):
    return 600 if tier == "quick" else 8000


def valid(case):
    return bool(case["queries"]) and all(isinstance(o, list) and o for o in case["ops"]) and all(
        isinstance(q, dict) and {"base", "remote", "cwd", "paths"} <= set(q) for q in case["queries"])


def content(path, version):
    if path.endswith(".ipynb"):
        nb = {"cells": [{"cell_type": "code", "execution_count": None, "metadata": {}, "outputs": [],
                         "source": ["# notebook %s\n" % os.path.basename(path)] + ["line %d\n" % i for i in range(12)] + ["version = %d\n" % version]}],
              "metadata": {}, "nbformat": 4, "nbformat_minor": 4}
        return json.dumps(nb, indent=1) + "\n"
    return "".join("text line %d of %s\n" % (i, path) for i in range(8)) + "version %d\n" % version


@st.composite
def program(draw):
    ops = []
    ver = 0
    # a populated first commit, so that later comparisons see several changed notebooks
    for f in draw(st.lists(st.sampled_from(FILES), min_size=3, max_size=7, unique=True)):
        ver += 1
        ops.append(["write", f, ver])
    ops.append(["commit"])
    if draw(st.booleans()):
        ops.append(["tag", draw(st.sampled_from(["sub", "other"]))])      # a ref named like a directory of the work tree
    n = draw(st.integers(3, 14))
    for _ in range(n):
        k = draw(st.sampled_from(["write", "write", "write", "write", "rm", "mv", "chmod", "add_all", "add", "commit", "commit", "tag"]))
        if k == "write":
            ver += 1
            ops.append(["write", draw(st.sampled_from(FILES)), ver])
        elif k == "rm":
            ops.append(["rm", draw(st.sampled_from(FILES))])
        elif k == "mv":
            src = draw(st.sampled_from(FILES))
            dst = draw(st.sampled_from(["moved.ipynb", "sub/moved2.ipynb", "sub/deep/renamed.ipynb", "renamed.txt", "other/x.ipynb"]))
            ops.append(["mv", src, dst])
        elif k == "add":
            ops.append(["add", draw(st.sampled_from(FILES))])
        elif k == "chmod":
            ops.append(["chmod", draw(st.sampled_from(FILES))])
        elif k == "tag":
            # a tag (or branch) named like a directory: on the command line an existing path wins over a ref of that name
            ops.append(["tag", draw(st.sampled_from(["sub", "other", "v1"]))])
        else:
            ops.append([k])
    queries = []
    for _ in range(draw(st.integers(1, 4))):
        kind = draw(st.sampled_from(["cc", "ci", "cw", "cw", "iw", "iw"]))
        q = {"base": draw(st.integers(0, 3)) if kind[0] == "c" else "index",
             "remote": draw(st.integers(0, 3)) if kind[1] == "c" else ("index" if kind[1] == "i" else "worktree"),
             "cwd": draw(st.sampled_from(DIRS)),
             "paths": draw(st.sampled_from([None, None, ["."], ["sub"], ["sub"], ["other"], ["deep"], ["a.ipynb"], ["c.ipynb"], ["sub/c.ipynb", "b.ipynb"],
                                           ["a.ipynb", "b.ipynb", "c.ipynb"], ["sub", "other", "a.ipynb"],
                                           ["ABS:sub"], ["ABS:sub/c.ipynb"], ["ABS:other", "ABS:a.ipynb"]]))}      # ABS: = given as an absolute path
        # the same comparison through the command line (`nbdiff <ref> [<ref>] [<path>...]`): brings the ref-vs-path
        # disambiguation of the arguments under the same oracle (the index cannot be named on the command line)
        q["cli"] = kind in ("cc", "cw") and draw(st.sampled_from([True, False, False]))
        # `nbdiff <path>` = HEAD against the working tree below <path>
        q["cli_omit_head"] = bool(q["cli"] and kind == "cw" and q["base"] == 0 and q["paths"] and len(q["paths"]) != 2 and draw(st.booleans()))     # (exactly two paths = a plain two-file comparison)
        queries.append(q)
    # a clean filter for notebooks (nbstripout-style set-up; these filters leave the content as it is, so git's answers do not change):
    # plain, with git's %f placeholder, or a tool that has gone missing (not `required`: git then uses the content unfiltered)
    flt = draw(st.sampled_from([None, None, None, None, "cat", "cat", "cat %f", "vp-no-such-filter-tool",
                                "sh -c 'echo DeprecationWarning: something >&2; cat'"]))        # a filter that also warns on stderr
    return {"ops": ops, "queries": queries, "filter": flt}


def strategy(tier):
    return program()


# ----------------------------------------------------------------------------- repository

class Repo:
    def __init__(self):
        self.top = tempfile.mkdtemp(prefix="vp_c17_")
        self.root = os.path.join(self.top, "repo")
        os.makedirs(self.root)
        self.env = dict(os.environ, HOME=self.top, XDG_CONFIG_HOME=os.path.join(self.top, "xdg"), GIT_CONFIG_GLOBAL="/dev/null",
                        GIT_CONFIG_NOSYSTEM="1", GIT_AUTHOR_NAME="t", GIT_AUTHOR_EMAIL="t@e", GIT_COMMITTER_NAME="t", GIT_COMMITTER_EMAIL="t@e",
                        GIT_AUTHOR_DATE="2020-01-01T00:00:00", GIT_COMMITTER_DATE="2020-01-01T00:00:00", LC_ALL="C")
        self.git("init", "-q", "-b", "main")
        self.git("config", "core.quotepath", "off")
        self.commits = []
        # root commit so that HEAD always exists
        self.write("README.md", "readme\n")
        self.git("add", "-A")
        self.commit()

    def git(self, *args, cwd=None, check=True):
        p = subprocess.run(["git"] + list(args), cwd=cwd or self.root, env=self.env, stdout=subprocess.PIPE, stderr=subprocess.PIPE)
        if check and p.returncode != 0:
            raise RuntimeError("git %s failed: %s" % (" ".join(args), p.stderr.decode()[:300]))
        return p.stdout.decode("utf-8", "replace")

    def write(self, path, text):
        full = os.path.join(self.root, path)
        os.makedirs(os.path.dirname(full), exist_ok=True)
        with open(full, "w", encoding="utf-8") as f:
            f.write(text)

    def commit(self):
        self.git("commit", "-q", "--allow-empty", "-m", "c%d" % len(self.commits))
        self.commits.append(self.git("rev-parse", "HEAD").strip())

    def apply(self, op):
        k = op[0]
        if k == "write":
            self.write(op[1], content(op[1], op[2]))
        elif k == "rm":
            full = os.path.join(self.root, op[1])
            if os.path.exists(full):
                os.remove(full)
        elif k == "mv":
            src, dst = os.path.join(self.root, op[1]), os.path.join(self.root, op[2])
            if os.path.exists(src) and not os.path.exists(dst):
                os.makedirs(os.path.dirname(dst), exist_ok=True)
                tracked = self.git("ls-files", "--", op[1]).strip()
                if tracked:
                    self.git("mv", op[1], op[2], check=False)
                else:
                    os.rename(src, dst)
        elif k == "chmod":
            full = os.path.join(self.root, op[1])
            if os.path.exists(full):
                os.chmod(full, os.stat(full).st_mode ^ 0o111)     # mode-only change: git reports the file as modified
        elif k == "tag":
            self.git("tag", "-f", op[1], check=False)
        elif k == "add_all":
            self.git("add", "-A")
        elif k == "add":
            self.git("add", "-A", "--", op[1], check=False)
        elif k == "commit":
            self.git("add", "-A")
            self.commit()

    def close(self):
        shutil.rmtree(self.top, ignore_errors=True)


def oracle(repo, q, cwd):
    """[(base_content|NULL, remote_content|NULL)] according to git."""
    base, remote = q["base_ref"], q["remote_ref"]
    args = ["diff", "-M", "--name-status", "-z"]
    if base == "index":
        pass                                   # index vs working tree
    elif remote == "index":
        args += ["--cached", base]
    elif remote == "worktree":
        args += [base]
    else:
        args += [base, remote]
    args += ["--"] + list(q["paths"] or [])
    out = repo.git(*args, cwd=cwd)
    toks = out.split("\0")
    entries = []
    i = 0
    while i < len(toks) and toks[i]:
        st_ = toks[i]
        if st_[0] in "RC":
            entries.append((st_[0], toks[i + 1], toks[i + 2]))
            i += 3
        else:
            entries.append((st_[0], toks[i + 1], toks[i + 1]))
            i += 2

    def show(ref, path):
        if ref == "worktree":
            full = os.path.join(repo.root, path)
            if not os.path.exists(full):
                return NULL
            with open(full, encoding="utf-8") as f:
                return f.read()
        spec = (":" if ref == "index" else ref + ":") + path
        return repo.git("show", spec)
    pairs = []
    for st_, pa, pb in entries:
        if st_ == "C":
            st_, pa = "A", pb          # a copy has no counterpart in nbdime's view unless GitPython pairs it; treat as added below
        a_is_nb, b_is_nb = pa.endswith(".ipynb"), pb.endswith(".ipynb")
        if not (a_is_nb and b_is_nb):
            continue
        ca = NULL if st_ == "A" else show(base, pa)
        cb = NULL if st_ == "D" else show(remote, pb)
        pairs.append((ca, cb))
    return pairs


def cli_pairs(q):
    """Pairs handed to nbdiff's per-file handler when the comparison is asked for on the command line."""
    import io
    import sys
    from nbdime import nbdiffapp
    argv = [] if q.get("cli_omit_head") else [q["base_ref"]]
    if q["remote_ref"] != "worktree":
        argv.append(q["remote_ref"])
    argv += list(q["paths"] or [])
    got = []

    def record(base, remote, output, args):
        got.append((base, remote))
        return 0
    saved = (nbdiffapp._handle_diff, sys.argv[:], sys.stdout, sys.stderr)
    nbdiffapp._handle_diff = record
    sys.argv[:] = ["nbdiff"]
    sys.stdout, sys.stderr = io.StringIO(), io.StringIO()
    try:
        parser = nbdiffapp._build_arg_parser()
        rc = nbdiffapp.main_diff(parser.parse_args(argv))
        if rc != 0:
            raise RuntimeError("nbdiff returned %r" % (rc,))
    finally:
        nbdiffapp._handle_diff, sys.argv[:], sys.stdout, sys.stderr = saved
    return got


def run_case(case):
    out = Outcome()
    repo = Repo()
    saved_cwd = os.getcwd()
    saved_env = dict(os.environ)
    try:
        os.environ.update({k: repo.env[k] for k in ("HOME", "XDG_CONFIG_HOME", "GIT_CONFIG_GLOBAL", "GIT_CONFIG_NOSYSTEM")})
        if case.get("filter"):
            with open(os.path.join(repo.root, ".git", "info", "attributes"), "w") as f:
                f.write("*.ipynb filter=vpclean\n")
            repo.git("config", "filter.vpclean.clean", case["filter"])
            out.label("clean_filter_" + case["filter"].split()[0] + ("_%f" if "%f" in case["filter"] else ""))
        for op in case["ops"]:
            repo.apply(op)
        from nbdime.gitfiles import changed_notebooks, GitRefIndex, GitRefWorkingTree
        nt = False
        for qi, q0 in enumerate(case["queries"]):
            q = dict(q0)
            if q.get("paths"):
                q["paths"] = [os.path.join(os.path.realpath(repo.root), p[4:]) if p.startswith("ABS:") else p for p in q["paths"]]
                if any(p.startswith("ABS:") for p in q0["paths"]):
                    out.count("queries_with_absolute_path_filters")
            cwd = os.path.join(repo.root, q["cwd"])
            if not os.path.isdir(cwd):
                out.count("queries_skipped_cwd_missing")
                continue

            def ref(x):
                if isinstance(x, int):
                    return repo.commits[max(0, len(repo.commits) - 1 - x)]
                return x
            q["base_ref"], q["remote_ref"] = ref(q["base"]), ref(q["remote"])
            try:
                want = oracle(repo, q, cwd)
            except RuntimeError:
                out.count("queries_skipped_git_rejects_pathspec")
                continue
            out.count("queries")
            out.count("queries_%s_%s" % ("commit" if isinstance(q["base"], int) else q["base"], "commit" if isinstance(q["remote"], int) else q["remote"]))
            os.chdir(cwd)
            detail = {"query": q0}
            got = []
            cwd_moved = None
            try:
                rb = GitRefIndex if q["base_ref"] == "index" else q["base_ref"]
                rr = GitRefIndex if q["remote_ref"] == "index" else (GitRefWorkingTree if q["remote_ref"] == "worktree" else q["remote_ref"])
                if q.get("cli"):
                    # an argument that is not an existing path but names a tag IS a revision for the command line: such a
                    # query does not express "filter by path", so it goes through the library route instead
                    tags = set(repo.git("tag", "-l").split())
                    if any(p in tags and not os.path.exists(os.path.join(cwd, p)) for p in (q["paths"] or [])):
                        q["cli"] = False
                        out.count("cli_queries_rerouted_(argument_is_a_ref_here)")
                if q.get("cli"):
                    out.count("queries_through_command_line")
                    if any(p in tags for p in (q["paths"] or [])):
                        out.count("cli_queries_with_path_named_like_a_ref")
                    pairs_iter = cli_pairs(q)
                else:
                    pairs_iter = changed_notebooks(rb, rr, q["paths"])
                for fa, fb in pairs_iter:
                    if os.path.realpath(os.getcwd()) != os.path.realpath(cwd) and cwd_moved is None:
                        cwd_moved = os.getcwd()
                    if any(isinstance(f, str) and f != NULL for f in (fa, fb)):
                        # the command line took its arguments for two plain files instead of a comparison of revisions
                        out.fail("examines_exactly_what_git_reports", "arguments_taken_for_two_files", detail=dict(detail, pair=[str(fa)[:60], str(fb)[:60]]))
                        got = None
                        break
                    got.append(tuple(NULL if f == NULL else f.read() for f in (fa, fb)))
                    for f in (fa, fb):
                        if hasattr(f, "close"):
                            f.close()
            except Exception as e:
                out.fail_exc("changed_notebooks_returns", e, detail=detail)
                os.chdir(saved_cwd)
                continue
            after = os.getcwd()
            os.chdir(saved_cwd)
            if got is None:
                continue
            if cwd_moved is not None or os.path.realpath(after) != os.path.realpath(cwd):
                out.fail("cwd_unchanged", "working_directory_changed", "during iteration" if cwd_moved else "after exhaustion", detail=detail)
            if sorted(got) != sorted(want):
                kind = "pair_count_differs" if len(got) != len(want) else "pair_contents_differ"
                nulls = "got %d null sides, git says %d" % (sum(x.count(NULL) for x in got), sum(x.count(NULL) for x in want))
                out.fail("examines_exactly_what_git_reports", kind, nulls if kind == "pair_contents_differ" else "got %d want %d" % (len(got), len(want)),
                         detail=dict(detail, got=len(got), want=len(want)))
            if len(want) >= 2 and (q["cwd"] != "" or q["remote_ref"] == "worktree"):
                nt = True
        out.nontrivial = nt
    finally:
        os.chdir(saved_cwd)
        os.environ.clear()
        os.environ.update(saved_env)
        repo.close()
    out.ntkey = case
    return out


DISCRIMINATORS = {}
