"""C10  use-base/use-local/use-remote equal resolving every open conflict to that side."""
import copy
import json

from hypothesis import strategies as st

from ..runner import Outcome, canon
from ..gen import notebooks as N
from ..gen import strategies as S
from .. import mergeutil as M
from ..nbd import plain, reset_state, to_nb
from .c02 import _first_difference
from .c07 import lines_of
from .c09 import revive

ID = "C10"
LEVEL = "exploration"
RULE = ("generated notebook triples (C03 space, conflict-forcing shapes) x configurations in which every path is governed by a use-* "
        "strategy: --merge-strategy use-X (X in base/local/remote) alone or with --input-strategy use-Y and/or --output-strategy use-Z "
        "(Y, Z in unset/base/local/remote), transients ignored or not. Oracles: (1) no decision of the strategy run is conflicted; (2) the "
        "merged notebook equals apply_decisions(base, D') where D are the decisions of the same triple under 'mergetool' (same transients "
        "flag, conflicts left open) and D' re-labels every conflicted decision to the side governing its path (path = common_path + key of "
        "the decision's first diff entry; Y under /cells/*/source and /cells/*/attachments, Z under /cells/*/outputs except "
        "/cells/*/outputs/*/metadata, X elsewhere); (3) every non-blank merged source line occurs in base, local or remote (no markers at "
        "all). Non-trivial: D has at least one conflicted decision; distinct = canonical JSON of (triple, configuration).")
ASSUMPTIONS = ["governing-path rule read off notebook_merge_strategies' documented table (merging/notebooks.py) and the CLI help texts",
               "merges that raise are C03's subject and only counted"]
SHRINK_KEYS = ["base", "local", "remote"]
SHRINK_EVALS = 600

SIDES = ["base", "local", "remote"]


def valid(case):
    return all(not N.schema_errors(case[k]) for k in ("base", "local", "remote"))


def precheck(case):
    for k in ("base", "local", "remote"):
        e = N.schema_errors(case[k])
        if e:
            return "%s not schema-valid: %s" % (k, e[0])
    return None


def budget(tier):
    return 7000 if tier == "quick" else 50000


@st.composite
def config(draw):
    x = draw(st.sampled_from(SIDES))
    y = draw(st.sampled_from([None, None] + SIDES))
    z = draw(st.sampled_from([None, None] + SIDES))
    return {"merge": "use-" + x, "input": y and "use-" + y, "output": z and "use-" + z,
            "transients": draw(st.sampled_from([True, True, False])), "renderer": draw(st.sampled_from(["git", "git", "diff3", "builtin"]))}


def strategy(tier):
    return st.tuples(N.triple(forced=None), st.lists(config(), min_size=2, max_size=2)).map(
        lambda t: {"base": t[0][0], "local": t[0][1], "remote": t[0][2], "shape": t[0][3], "configs": t[1]})


def star(path):
    return "/" + "/".join("*" if isinstance(p, int) else str(p) for p in path)


def governing_side(dec, cfg):
    x = cfg["merge"][4:]
    y = (cfg.get("input") or cfg["merge"])[4:]
    z = (cfg.get("output") or cfg["merge"])[4:]
    path = list(dec.get("common_path") or [])
    first = (dec.get("local_diff") or dec.get("remote_diff") or [{}])[0]
    if "key" in first:
        path.append(first["key"])
    sp = star(path)
    if sp.startswith("/cells/*/source") or sp.startswith("/cells/*/attachments"):
        return y
    if sp.startswith("/cells/*/outputs/*/metadata"):
        return x
    if sp.startswith("/cells/*/outputs"):
        return z
    return x


def run_case(case):
    from nbdime.merging.decisions import apply_decisions
    out = Outcome()
    base, local, remote = case["base"], case["local"], case["remote"]
    out.label("shape_" + case.get("shape", "?"))
    allowed = lines_of(base) | lines_of(local) | lines_of(remote)
    nt = False
    open_cache = {}
    for cfg in case["configs"]:
        tr = cfg["transients"]
        if tr not in open_cache:
            mt = {"merge": "mergetool", "input": None, "output": None, "transients": tr, "renderer": "git"}
            _, D, exc = M.run_merge(base, local, remote, mt, want="decide")
            open_cache[tr] = None if exc is not None else json.loads(json.dumps(D))
        D = open_cache[tr]
        if D is None:
            out.count("open_merge_raised_(C03)")
            continue
        merged, dec, exc = M.run_merge(base, local, remote, cfg)
        if exc is not None:
            out.count("strategy_merge_raised_(C03)")
            continue
        out.count("configurations_compared")
        if cfg.get("input") or cfg.get("output"):
            out.count("with_separate_input_or_output_strategy")
        detail = {"config": cfg}
        nconf = sum(1 for d in D if d.get("conflict"))
        if nconf:
            nt = True
            out.count("configurations_with_open_conflicts")
        left = [d for d in dec if d.get("conflict")]
        if left:
            out.fail("no_unresolved_conflict", "conflict_left", star(left[0]["common_path"]),
                     detail=dict(detail, path=list(left[0]["common_path"])))
        D2 = []
        for d in D:
            d = copy.deepcopy(d)
            if d.get("conflict"):
                d["action"] = governing_side(d, cfg)
                d["conflict"] = False
            D2.append(d)
        try:
            reset_state()
            expect = plain(apply_decisions(to_nb(base), revive(D2)))
        except Exception as e:
            out.fail_exc("relabelled_decisions_apply", e, detail=detail)
            continue
        if canon(expect) != canon(merged):
            out.fail("equals_resolving_open_conflicts", "merged_differs", _first_difference(merged, expect), detail=detail)
        alien = sorted(lines_of(merged) - allowed)
        if alien:
            out.fail("provenance", "line_from_nowhere", detail=dict(detail, line=alien[0]))
    out.nontrivial = nt
    out.ntkey = [base, local, remote, case["configs"]]
    return out


def _unterminated_last_lines(case):
    out = set()
    for k in ("base", "local", "remote"):
        for c in case[k]["cells"]:
            s = c["source"]
            if s and not s.endswith(("\n", "\r")):
                out.add(s.splitlines()[-1])
    return out


def _fused_after_unterminated_last_line(case, f):
    """The alien line is a concatenation of >=2 input lines, at least one of them an input's final line that lacks a newline."""
    line = (f.get("detail") or {}).get("line") or ""
    allowed = lines_of(case["base"]) | lines_of(case["local"]) | lines_of(case["remote"])
    unterminated = _unterminated_last_lines(case)
    pieces = {a for a in allowed} | {a.lstrip() for a in allowed} | set(unterminated)
    pieces.discard("")
    n = len(line)
    # best[i] = (reachable, used_unterminated, count) for prefix line[:i]
    best = {0: (False, 0)}
    for i in range(n):
        if i not in best:
            continue
        used, cnt = best[i]
        for p in pieces:
            if line.startswith(p, i):
                j = i + len(p)
                # spaces between pieces may have been stripped / kept
                while True:
                    cand = (used or p in unterminated or p.rstrip() in {u.rstrip() for u in unterminated}, cnt + 1)
                    if j not in best or (cand[0] and not best[j][0]):
                        best[j] = cand
                    if j < n and line[j] == " ":
                        j += 1
                    else:
                        break
    return n in best and best[n][0] and best[n][1] >= 2


def _same_line_rewritten_on_both_sides(case, f):
    """Some cell has a base source line that neither side kept (both rewrote or removed it): nbdime then merges that
    line character by character, and the alien line consists of pieces of those versions."""
    line = (f.get("detail") or {}).get("line") or ""

    def cells(nb):
        return {c.get("id", i): c for i, c in enumerate(nb["cells"])}
    B, L, R = cells(case["base"]), cells(case["local"]), cells(case["remote"])
    for k, b in B.items():
        if k not in L or k not in R:
            continue
        bl = [x for x in b["source"].splitlines()]
        ll, rl = set(L[k]["source"].splitlines()), set(R[k]["source"].splitlines())
        changed = [x for x in bl if x not in ll and x not in rl]
        if not changed:
            continue
        # every character run of the alien line must come from one of the three versions of this cell's source
        pool = b["source"] + "\n" + L[k]["source"] + "\n" + R[k]["source"]
        import difflib
        covered = sum(m.size for m in difflib.SequenceMatcher(None, line, pool, autojunk=False).get_matching_blocks())
        if covered >= 0.9 * len(line):
            return True
    return False


DISCRIMINATORS = {"fused_after_unterminated_last_line": _fused_after_unterminated_last_line,
                  "same_line_rewritten_on_both_sides": _same_line_rewritten_on_both_sides}
