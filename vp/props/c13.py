"""C13  Diff, patch, merge and rendering never modify their inputs."""
import copy
import io
import json
import sys

from hypothesis import strategies as st

from ..runner import Outcome, canon
from ..gen import jsondocs as G
from ..gen import notebooks as N
from ..gen import strategies as S
from ..nbd import plain, reset_state, to_nb

ID = "C13"
LEVEL = "exploration"
RULE = ("calls of the public functions diff, patch, decide_merge (generic JSON pairs/triples) and diff_notebooks, patch_notebook, "
        "decide_notebook_merge, merge_notebooks, apply_decisions, pretty_print_notebook, pretty_print_notebook_diff, "
        "pretty_print_merge_decisions (generated notebook pairs/triples x sampled strategy; diffs and decisions fed back in are the ones "
        "nbdime produced; one case in twelve nests the metadata or JSON data of the rich outputs 150-900 levels deep, the library running "
        "under the interpreter's default recursion limit). Oracles: (snapshot) canonical JSON of every argument is identical before and after the call, also when the call "
        "raises; (aliasing) afterwards every list and dict reachable from the returned value is mutated in place (sentinel appended / "
        "sentinel key set) and every argument must still have its original canonical JSON. Non-trivial: inputs contain a display_data / "
        "execute_result output (the pop-and-restore path of the output differ) or the diff / decisions carry an added value (aliasing "
        "candidate); distinct = canonical JSON of the case.")
ASSUMPTIONS = ["deep snapshot = canonical JSON of the plain-JSON copy of each argument", "build_diffs (not named by the property) is only measured"]
SHRINK_KEYS = ["a", "b", "base", "local", "remote"]
SHRINK_EVALS = 800


def valid(case):
    k = case["kind"]
    if k == "json":
        return all(type(case[x]) is type(case["base"]) for x in ("local", "remote")) and isinstance(case["base"], (list, dict, str))
    keys = ("a", "b") if k == "nb" else ("base", "local", "remote")
    return all(not N.schema_errors(case[x]) for x in keys)


def precheck(case):
    if case["kind"] == "json":
        return None
    for k in (("a", "b") if case["kind"] == "nb" else ("base", "local", "remote")):
        e = N.schema_errors(case[k])
        if e:
            return "%s not schema-valid: %s" % (k, e[0])
    return None


def budget(tier):
    return 6000 if tier == "quick" else 40000


def strategy(tier):
    N.enable_long_texts(tier == "thorough")
    j = G.triple().map(lambda t: {"kind": "json", "base": t[0], "local": t[1], "remote": t[2]})
    n = N.pair().map(lambda t: {"kind": "nb", "a": t[0], "b": t[1]})
    m = st.tuples(N.triple(), S.strategy_args()).map(
        lambda t: {"kind": "merge", "base": t[0][0], "local": t[0][1], "remote": t[0][2], "args": t[1]})
    return st.one_of(j, n, n, m, m, m, n, n, m, m, m, deep_pair())


@st.composite
def deep_pair(draw):
    """A pair whose display_data / execute_result outputs carry metadata (or JSON data) nested hundreds of levels deep. The case stores
    only the depth; the nesting is built when the case runs (so that cases stay small and picklable)."""
    a, b = draw(N.pair())[:2]
    return {"kind": "nb", "a": a, "b": b, "deep": draw(st.sampled_from([150, 300, 450, 600, 900])),
            "deep_where": draw(st.sampled_from(["metadata", "metadata", "json"])), "deep_leaf_b": draw(st.sampled_from([1, 2]))}


def _nest(d, leaf):
    x = leaf
    for _ in range(d):
        x = {"k": x}
    return x


def inflate(case):
    """(a, b) of a deep case with the nesting put in place."""
    a, b = copy.deepcopy(case["a"]), copy.deepcopy(case["b"])
    d, where = case["deep"], case.get("deep_where", "metadata")
    hit = False
    for nb, leaf in ((a, 1), (b, case.get("deep_leaf_b", 1))):
        for c in nb["cells"]:
            for o in c.get("outputs", []):
                if o.get("output_type") in ("display_data", "execute_result"):
                    if where == "metadata":
                        o["metadata"] = {"deep": _nest(d, leaf)}
                    else:
                        o["data"] = dict(o["data"], **{"application/json": _nest(d, leaf)})
                    hit = True
    if not hit:
        for nb in (a, b):
            nb["cells"].append({"cell_type": "code", "metadata": {}, "source": "plot()", "execution_count": None,
                                "outputs": [{"output_type": "display_data", "data": {"text/plain": "<Figure>"}, "metadata": {"deep": _nest(d, 1)}}]})
            if nb["nbformat_minor"] >= 5:
                nb["cells"][-1]["id"] = "deepcell"
    return a, b


SENTINEL = "__vp_scribble__"


def scribble(x, seen=None):
    """Mutate every list / dict reachable from x in place."""
    seen = set() if seen is None else seen
    if id(x) in seen:
        return
    seen.add(id(x))
    if isinstance(x, dict):
        for v in list(x.values()):
            scribble(v, seen)
        try:
            x[SENTINEL] = 1
        except Exception:
            pass
    elif isinstance(x, list):
        for v in list(x):
            scribble(v, seen)
        x.append(SENTINEL)
    elif isinstance(x, tuple):
        for v in x:
            scribble(v, seen)


def checked_call(out, name, fn, args, argnames):
    """Call fn(*args) with snapshot and aliasing oracles. Returns the result (or None if it raised)."""
    before = [canon(plain(a)) for a in args]
    out.count("calls")
    out.count("call_" + name)
    res, exc = None, None
    limit = sys.getrecursionlimit()
    try:
        sys.setrecursionlimit(min(limit, 1000))      # the library runs under the interpreter's default limit (deep cases raise the harness's)
        try:
            res = fn(*args)
        finally:
            sys.setrecursionlimit(limit)
    except Exception as e:
        exc = e
        out.count("calls_that_raised")
        if isinstance(e, RecursionError):
            out.count("calls_that_hit_the_recursion_limit")
    for a, b, an in zip(args, before, argnames):
        if canon(plain(a)) != b:
            out.fail("snapshot", "argument_modified", "%s(%s)%s" % (name, an, " while raising" if exc else ""))
            return None
    if exc is not None:
        return None
    # aliasing clause on a deep copy of nothing: scribble the real result, then look at the arguments
    keep = copy.deepcopy(res)
    scribble(res)
    for a, b, an in zip(args, before, argnames):
        if canon(plain(a)) != b:
            out.fail("aliasing", "result_aliases_argument", "%s result shares structure with %s" % (name, an))
            break
    return keep


def has_rich_output(nb):
    return any(o.get("output_type") in ("display_data", "execute_result") for c in nb.get("cells", []) for o in c.get("outputs", []))


def has_added_value(d):
    for e in d or []:
        if e.get("op") in ("add", "addrange", "replace"):
            return True
        if e.get("op") == "patch" and has_added_value(e.get("diff")):
            return True
    return False


def run_case(case):
    if case.get("deep"):
        # deeply nested (valid) JSON: the harness's own snapshots need head-room, the library calls do not get it (see checked_call)
        limit = sys.getrecursionlimit()
        sys.setrecursionlimit(50000)
        try:
            return _run_case(case)
        finally:
            sys.setrecursionlimit(limit)
    return _run_case(case)


def _run_case(case):
    import nbdime
    from nbdime.merging.generic import decide_merge
    from nbdime.merging.decisions import apply_decisions, build_diffs
    from nbdime.merging.notebooks import decide_notebook_merge, merge_notebooks
    from nbdime import prettyprint as pp
    out = Outcome()
    reset_state()
    kind = case["kind"]
    out.label("kind_" + kind)
    if kind == "json":
        b, l, r = (copy.deepcopy(case[k]) for k in ("base", "local", "remote"))
        d = checked_call(out, "diff", nbdime.diff, [b, l], ["a", "b"])
        if d is not None:
            out.nontrivial = has_added_value(plain(d))
            checked_call(out, "patch", nbdime.patch, [b, d], ["obj", "diff"])
        dec = checked_call(out, "decide_merge", decide_merge, [b, l, r], ["base", "local", "remote"])
        if dec is not None:
            checked_call(out, "apply_decisions", apply_decisions, [b, dec], ["base", "decisions"])
        return out

    def cfg():
        return pp.PrettyPrintConfig(out=io.StringIO())

    if kind == "nb":
        ca, cb = inflate(case) if case.get("deep") else (case["a"], case["b"])
        if case.get("deep"):
            out.label("nested_%d_deep" % case["deep"])
        a, b = to_nb(ca), to_nb(cb)
        out.nontrivial = has_rich_output(ca) and has_rich_output(cb)
        d = checked_call(out, "diff_notebooks", nbdime.diff_notebooks, [a, b], ["a", "b"])
        if d is not None:
            if has_added_value(plain(d)):
                out.label("diff_with_added_value")
            checked_call(out, "patch_notebook", nbdime.patch_notebook, [a, d], ["nb", "diff"])
            checked_call(out, "pretty_print_notebook_diff", lambda x, y: pp.pretty_print_notebook_diff("a", "b", x, y, cfg()), [a, d], ["nb", "diff"])
        checked_call(out, "pretty_print_notebook", lambda x: pp.pretty_print_notebook(x, cfg()), [a], ["nb"])
        return out
    base, local, remote = (to_nb(case[k]) for k in ("base", "local", "remote"))
    args = S.build_args(case["args"])
    out.nontrivial = any(has_rich_output(case[k]) for k in ("base", "local", "remote"))
    with S.renderer(case["args"].get("renderer", "git")):
        dec = checked_call(out, "decide_notebook_merge", lambda b, l, r: decide_notebook_merge(b, l, r, args), [base, local, remote],
                           ["base", "local", "remote"])
        checked_call(out, "merge_notebooks", lambda b, l, r: merge_notebooks(b, l, r, args), [base, local, remote],
                     ["base", "local", "remote"])
        if dec is not None:
            checked_call(out, "apply_decisions", apply_decisions, [base, dec], ["base", "decisions"])
            checked_call(out, "pretty_print_merge_decisions", lambda b, d: pp.pretty_print_merge_decisions(b, d, cfg()), [base, dec],
                         ["base", "decisions"])
            # measured only (not named by the property)
            before = canon(plain(dec))
            try:
                build_diffs(base, dec, "local")
            except Exception:
                out.count("build_diffs_raised")
            if canon(plain(dec)) != before:
                out.count("build_diffs_modified_decisions_(measured_only)")
    return out


DISCRIMINATORS = {}
