"""C09  Merge decisions losslessly describe the merge and follow the published schema."""
import copy
import json
import os

from hypothesis import strategies as st

from ..runner import Outcome, canon, REPO
from ..gen import notebooks as N
from ..gen import strategies as S
from .. import mergeutil as M
from ..nbd import plain, reset_state, to_nb
from ..oracles.refapply import ref_apply, RefApplyError, effective_path
from .c02 import _first_difference

ID = "C09"
LEVEL = "exploration"
RULE = ("generated notebook triples (C03 space, incl. minors differing on all three sides) x {mergetool + 2 sampled command-line "
        "configurations}. Oracles: (a) apply_decisions(base, decisions) re-applied to a pristine copy - in memory and after a JSON "
        "dump/load of the decision list - equals the merged notebook; an independent applier written from the documentation gives the same "
        "notebook; (b) under 'mergetool': re-labelling every decision to local (if it has a local diff, else base) and applying reproduces "
        "local exactly, likewise remote (asserted for mergetool only; for CLI strategies, whose bundling rewrites diffs, mismatches are "
        "only counted); (c) json.dumps succeeds and the list validates (Draft4) against merge_format.schema.json with "
        "diff_format.schema.json resolved; (d) ordering: no decision lies inside the sub-document of an earlier decision's path and path "
        "groups are contiguous, so group-wise application never invalidates later positions. Merges that raise are C03's subject. "
        "Non-trivial: >=3 decisions on >=2 distinct paths, one a prefix of another; distinct = canonical JSON of (triple, configuration).")
ASSUMPTIONS = ["independent applier vp/oracles/refapply.py + reference patcher", "decision lists revived from JSON with nbdime's own MergeDecision/DiffEntry wrappers for the Python re-application"]
SHRINK_KEYS = ["base", "local", "remote"]
SHRINK_EVALS = 600


def valid(case):
    return all(not N.schema_errors(case[k]) for k in ("base", "local", "remote"))


def precheck(case):
    for k in ("base", "local", "remote"):
        e = N.schema_errors(case[k])
        if e:
            return "%s not schema-valid: %s" % (k, e[0])
    return None


def budget(tier):
    return 7000 if tier == "quick" else 50000


MERGETOOL = {"merge": "mergetool", "input": None, "output": None, "transients": True, "renderer": "git"}


def strategy(tier):
    N.enable_long_texts(tier == "thorough")
    return st.tuples(N.triple(), st.lists(S.strategy_args(), min_size=2, max_size=2), st.booleans()).map(
        lambda t: {"base": t[0][0], "local": t[0][1], "remote": t[0][2], "shape": t[0][3],
                   "combos": [dict(MERGETOOL, transients=t[2])] + t[1]})


_schema = {}


def decision_validator():
    if "v" not in _schema:
        import jsonschema
        d = os.path.join(REPO, "nbdime")
        with open(os.path.join(d, "merge_format.schema.json")) as f:
            ms = json.load(f)
        with open(os.path.join(d, "diff_format.schema.json")) as f:
            ds = json.load(f)
        resolver = jsonschema.RefResolver("file://" + d + "/", ms, store={"file://" + d + "/diff_format.schema.json": ds,
                                                                           "diff_format.schema.json": ds})
        _schema["v"] = jsonschema.Draft4Validator(ms, resolver=resolver)
    return _schema["v"]


def revive(decisions_json):
    from nbdime.merging.decisions import MergeDecision
    from nbdime.diff_utils import to_diffentry_dicts
    out = []
    for d in decisions_json:
        dd = {k: (to_diffentry_dicts(v) if k.endswith("_diff") or k == "similar_insert" else v) for k, v in d.items()}
        dd["common_path"] = tuple(dd.get("common_path") or ())
        out.append(MergeDecision(**dd))
    return out


def relabel(decisions_json, side):
    out = []
    for d in decisions_json:
        d = copy.deepcopy(d)
        d["action"] = side if d.get(side + "_diff") else "base"
        d["conflict"] = False
        out.append(d)
    return out


def interesting(dj):
    paths = [tuple(d.get("common_path") or ()) for d in dj]
    if len(dj) < 3 or len(set(paths)) < 2:
        return False
    ps = set(paths)
    return any(p != q and len(p) < len(q) and q[:len(p)] == p for p in ps for q in ps)


def run_case(case):
    from nbdime.merging.decisions import apply_decisions
    out = Outcome()
    base, local, remote = case["base"], case["local"], case["remote"]
    out.label("shape_" + case.get("shape", "?"))
    minors = {base["nbformat_minor"], local["nbformat_minor"], remote["nbformat_minor"]}
    if len(minors) == 3:
        out.label("three_distinct_minors")
    nt = False
    seen = set()
    for a in case["combos"]:
        k = M.combo_label(a)
        if k in seen:
            continue
        seen.add(k)
        is_mt = a["merge"] == "mergetool"
        tag = "mergetool" if is_mt else "cli"
        merged, dec, exc = M.run_merge(base, local, remote, a)
        if exc is not None:
            out.count("merge_raised_(C03)")
            continue
        out.count("decision_lists_" + tag)
        detail = {"args": a}
        # (c) plain JSON + schema
        try:
            s = json.dumps(dec, allow_nan=False)
            dj = json.loads(s)
        except Exception as e:
            out.fail_exc("plain_json", e, detail=detail)
            continue
        if canon(dj) != canon(plain(dec)):
            out.fail("plain_json", "json_roundtrip_changes_decisions", detail=detail)
        errs = list(decision_validator().iter_errors(dj))
        if errs:
            e = errs[0]
            while e.context:
                e = e.context[0]
            out.fail("schema", "schema_invalid", e.message[:60], detail=dict(detail, error=errs[0].message[:200]))
        if interesting(dj):
            nt = True
        # (a) re-application, in memory and from JSON
        for name, ds in (("memory", dec), ("json", None)):
            try:
                reset_state()
                ds = revive(dj) if ds is None else ds
                m2 = plain(apply_decisions(to_nb(base), ds))
                if canon(m2) != canon(merged):
                    out.fail("apply_equals_merged", "reapplied_%s_differs" % name, _first_difference(m2, merged), detail=detail)
            except Exception as e:
                out.fail_exc("apply_equals_merged_" + name, e, detail=detail)
        # (d) ordering + independent applier
        try:
            m3 = ref_apply(base, dj)
            if canon(m3) != canon(merged):
                out.fail("independent_applier", "ref_apply_differs", _first_difference(m3, merged), detail=detail)
        except RefApplyError as e:
            msg = str(e)
            kind = "ordering" if ("follows a decision" in msg or "not contiguous" in msg) else "ref_apply_rejects"
            out.fail("ordering" if kind == "ordering" else "independent_applier", kind, _gen(msg), detail=dict(detail, error=msg))
        # (b) sides recoverable
        for side, nb in (("local", local), ("remote", remote)):
            try:
                reset_state()
                m4 = plain(apply_decisions(to_nb(base), revive(relabel(dj, side))))
                ok = canon(m4) == canon(nb)
            except Exception as e:
                ok = False
                if is_mt:
                    out.fail_exc("choose_%s_reproduces_%s" % (side, side), e, detail=detail)
                    continue
            if not ok:
                if is_mt:
                    out.fail("choose_side_reproduces_side", "%s_not_reproduced" % side, _first_difference(m4, nb), detail=detail)
                else:
                    out.count("cli_side_reconstruction_mismatches")
    out.nontrivial = nt
    out.ntkey = [base, local, remote, case["combos"]]
    return out


def _gen(msg):
    import re
    msg = re.sub(r"\[[^\]]*\]", "[..]", msg)
    msg = re.sub(r"'[^']*'", "'K'", msg)
    return msg


DISCRIMINATORS = {}
