"""C14  Ignore options hide exactly the ignored categories and nothing else."""
import copy
import itertools
import json
import os
import sys

from hypothesis import strategies as st

from ..runner import Outcome, canon
from ..gen import notebooks as N
from ..nbd import plain, reset_state, to_nb
from ..oracles.refpatch import refpatch, RefPatchError
from .c01 import _workdir
from .c02 import _first_difference

ID = "C14"
LEVEL = "exploration"
CATS = ["sources", "outputs", "attachments", "metadata", "id", "details"]
# the 'Ignore' mapping mirrors the category -> path table of set_notebook_diff_targets (the property's anchor for it)
RULE = ("all 64 subsets I of the six categories x the ways of stating them (positive flags, negative flags, an 'Ignore' mapping in a "
        "nbdime_config.json read by the real ConfigBackedParser of nbdiff - values True, key lists for details, optional explicit False for "
        "the rest; the same mapping split over the Diff and NbDiff sections; and the server extension's order: some categories as flags "
        "first, the others as a key-list mapping applied afterwards) x generated notebook pairs (B an edit script of A touching several categories: sources, outputs of every type with their "
        "own metadata and execution counts, attachments incl. gaining/losing the whole dict, notebook/cell/output metadata, ids, "
        "execution counts; one pair in five shifts the execution counts of otherwise equal execute_result outputs or exchanges the ids "
        "of cells of one type). Each case runs one pair under every subset (way rotating), i.e. the 64 subsets are enumerated per case. "
        "Oracles: (a) no diff entry whose own path lies in an ignored category (category map written from the option help texts: "
        "/cells/*/source; /cells/*/outputs/**; /cells/*/attachments/**; /metadata/**, /cells/*/metadata/**, /cells/*/outputs/*/metadata/**; "
        "/cells/*/id; /cells/*/execution_count and /cells/*/outputs/*/execution_count); whole-cell add/remove is not inside a category; (b) "
        "project(patch(A,d)) == project(B) where project blanks the ignored categories; (c) if B differs from A only in ignored "
        "outputs/attachments/metadata/ids/details the diff is empty. Non-trivial: the pair differs in >=1 ignored and >=1 non-ignored "
        "category; distinct = canonical JSON of (pair, subset, way).")
ASSUMPTIONS = ["flags parsed by the real nbdiff argparse parser + process_diff_flags; configuration read from a temp cwd with argv[0]=nbdiff",
               "reference patcher applies the diff for clause (b)"]
SHRINK_KEYS = ["a", "b"]
SHRINK_EVALS = 120

FLAG = {"sources": "s", "outputs": "o", "attachments": "a", "metadata": "m", "id": "i", "details": "d"}
IGNORE_PATHS = {
    "sources": {"/cells/*/source": True},
    "outputs": {"/cells/*/outputs": True},
    "attachments": {"/cells/*/attachments": True, "/cells/*": ["attachments"]},
    "metadata": {"/metadata": True, "/cells/*/metadata": True, "/cells/*/outputs/*/metadata": True},
    "id": {"/cells/*/id": True, "/cells/*": ["id"]},
    "details": {"/cells/*": ["execution_count"], "/cells/*/outputs/*": ["execution_count"]},
}
# the same categories said with key lists on the parent objects (an 'Ignore' mapping may name keys of any path)
IGNORE_KEYS = {
    "sources": {"/cells/*": ["source"]},
    "outputs": {"/cells/*": ["outputs"]},
    "attachments": {"/cells/*": ["attachments"]},
    "metadata": {"/metadata": True, "/cells/*": ["metadata"], "/cells/*/outputs/*": ["metadata"]},
    "id": {"/cells/*": ["id"]},
    "details": {"/cells/*": ["execution_count"], "/cells/*/outputs/*": ["execution_count"]},
}
SUBSETS = [tuple(c for c, bit in zip(CATS, bits) if bit) for bits in itertools.product((0, 1), repeat=6)]


def _type_changes_under_one_id(case):
    """A cell id that names cells of different types in a and b (a structural change outside the six categories)."""
    ta = {c["id"]: c["cell_type"] for c in case["a"]["cells"] if "id" in c}
    return any(c.get("id") in ta and ta[c["id"]] != c["cell_type"] for c in case["b"]["cells"])


def valid(case):
    return not N.schema_errors(case["a"]) and not N.schema_errors(case["b"]) and not _type_changes_under_one_id(case)


def precheck(case):
    for k in ("a", "b"):
        e = N.schema_errors(case[k])
        if e:
            return "%s not schema-valid: %s" % (k, e[0])
    return None


def budget(tier):
    return 640 if tier == "quick" else 6000


@st.composite
def rich_pair(draw):
    """A pair whose difference touches many categories at once."""
    minor = draw(st.sampled_from([5, 5, 4, 2]))
    a = draw(N.notebook(minor=minor, min_cells=2, max_cells=4))
    special = draw(st.sampled_from([None] * 8 + ["shift_output_counts", "permute_ids"]))
    code = [c for c in a["cells"] if c["cell_type"] == "code"]
    if special == "shift_output_counts" and code:
        # a cell whose execute_result outputs are indistinguishable but for their execution counts (the same value shown again)
        c = draw(st.sampled_from(code))
        n = draw(st.integers(2, 3))
        c["outputs"] = [{"output_type": "execute_result", "data": {"text/plain": "42"}, "metadata": {}, "execution_count": k + 1} for k in range(n)]
    b = copy.deepcopy(a)
    cells = b["cells"]
    if special == "shift_output_counts" and code:
        for c in cells:
            for o in c.get("outputs", []):
                if o.get("output_type") == "execute_result" and o["data"] == {"text/plain": "42"} and isinstance(o.get("execution_count"), int):
                    o["execution_count"] += 1
        if draw(st.booleans()):
            return a, b
    if special == "permute_ids" and minor >= 5 and len(cells) >= 2:
        # the same cells in the same order, their ids exchanged (both notebooks re-created from a template)
        for ct in ("code", "markdown", "raw"):           # among cells of one type (a type change under one id is out of scope)
            grp = [c for c in cells if c["cell_type"] == ct]
            if len(grp) >= 2:
                ids = [c["id"] for c in grp]
                for c, cid in zip(grp, ids[1:] + ids[:1]):
                    c["id"] = cid
        if draw(st.booleans()):
            return a, b
    for i, c in enumerate(cells):
        kinds = draw(st.lists(st.sampled_from(["source", "outputs", "outputs", "metadata", "ec", "attach", "id", "outmeta", "rerun", "none"]),
                              min_size=1, max_size=3))
        for k in kinds:
            if k == "id":
                if "id" in c:
                    c["id"] = c["id"][:-2] + "Q%d" % i       # stays unique and within 64 characters
            elif k == "outmeta":
                for o in c.get("outputs", []):
                    if "metadata" in o:
                        o["metadata"] = dict(o["metadata"], changed=draw(st.sampled_from([1, "v", [1]])))
                    if o.get("output_type") == "execute_result":
                        o["execution_count"] = 9
            elif k != "none":
                cells[i] = c = draw(N.edit_cell(c, minor, [k]))
    if draw(st.booleans()):
        b["metadata"] = dict(b["metadata"], changed_nb_meta=draw(st.sampled_from([1, "z", {"k": [1]}])))
    if draw(st.sampled_from([True, False, False])):
        # whole-cell insert/delete and further edits; no cell-type change (a structural change outside the six categories)
        b = draw(N.edit_notebook(b, "B", max_steps=2, ops=["ins", "del", "edit"],
                                 cell_kinds=[k for k in N.CELL_EDITS if k != "type"]))
    return a, b


PATHS = ["/cells/*/source", "/cells/*/outputs", "/cells/*/attachments", "/metadata", "/cells/*/metadata", "/cells/*/outputs/*/metadata"]


def strategy(tier):
    subsets = st.lists(st.lists(st.sampled_from(PATHS), min_size=1, max_size=3, unique=True), min_size=3, max_size=3)
    return st.tuples(rich_pair(), st.integers(0, 3), st.booleans(), subsets).map(
        lambda t: {"a": t[0][0], "b": t[0][1], "rot": t[1], "explicit_false": t[2], "path_subsets": t[3]})


# ----------------------------------------------------------------------------- category map (from the help texts / statement)

def category(path):
    """Category of a starred path, or None."""
    if path == "/cells/*/source" or path.startswith("/cells/*/source/"):
        return "sources"
    if path.startswith("/cells/*/outputs/*/metadata") or path.startswith("/cells/*/metadata") or path.startswith("/metadata"):
        return "metadata"
    if path == "/cells/*/outputs/*/execution_count" or path == "/cells/*/execution_count":
        return "details"
    if path.startswith("/cells/*/outputs"):
        return "outputs"
    if path.startswith("/cells/*/attachments"):
        return "attachments"
    if path == "/cells/*/id":
        return "id"
    return None


def categories_of(path):
    """All categories a path lies in (an output's metadata / execution_count also lie inside 'outputs')."""
    out = set()
    c = category(path)
    if c:
        out.add(c)
    if path.startswith("/cells/*/outputs"):
        out.add("outputs")
    return out


def entries_in_ignored(d, ignored, path=""):
    """Diff entries whose own path lies in an ignored category."""
    bad = []
    for e in d:
        k = e["key"]
        p = path + "/" + ("*" if isinstance(k, int) else str(k))
        if categories_of(p) & ignored:
            bad.append((p, e["op"]))
        elif e["op"] == "patch":
            bad += entries_in_ignored(e["diff"], ignored, p)
    return bad


def project(nb, ignored):
    nb = copy.deepcopy(nb)
    if "metadata" in ignored:
        nb["metadata"] = {}
    for c in nb["cells"]:
        if "sources" in ignored:
            c["source"] = ""
        if "metadata" in ignored:
            c["metadata"] = {}
        if "id" in ignored:
            c.pop("id", None)
        if "attachments" in ignored:
            c.pop("attachments", None)
        if "details" in ignored and "execution_count" in c:
            c["execution_count"] = None
        if "outputs" in c:
            if "outputs" in ignored:
                c["outputs"] = []
            for o in c["outputs"]:
                if "metadata" in ignored and "metadata" in o:
                    o["metadata"] = {}
                if "details" in ignored and "execution_count" in o:
                    o["execution_count"] = None
    return nb


def differing_categories(a, b):
    """Categories in which a and b differ (cells compared by position; {'structure'} if the cell lists do not line up)."""
    if len(a["cells"]) != len(b["cells"]) or any(x["cell_type"] != y["cell_type"] for x, y in zip(a["cells"], b["cells"])):
        return {"structure"}
    cats = set()
    if canon(a["metadata"]) != canon(b["metadata"]):
        cats.add("metadata")
    if a["nbformat_minor"] != b["nbformat_minor"]:
        return {"structure"}
    for x, y in zip(a["cells"], b["cells"]):
        if x["source"] != y["source"]:
            cats.add("sources")
        if x.get("id") != y.get("id"):
            cats.add("id")
        if canon(x.get("attachments")) != canon(y.get("attachments")):
            cats.add("attachments")
        if canon(x["metadata"]) != canon(y["metadata"]):
            cats.add("metadata")
        if x.get("execution_count") != y.get("execution_count"):
            cats.add("details")
        xo, yo = x.get("outputs") or [], y.get("outputs") or []
        if len(xo) != len(yo):
            cats.add("outputs")
            continue
        for p, q in zip(xo, yo):
            if canon(p.get("metadata")) != canon(q.get("metadata")):
                cats.add("metadata")
            if p.get("execution_count") != q.get("execution_count"):
                cats.add("details")
            strip = lambda o: {k: v for k, v in o.items() if k not in ("metadata", "execution_count")}
            if canon(strip(p)) != canon(strip(q)):
                cats.add("outputs")
    return cats


# ----------------------------------------------------------------------------- stating the subset

def configure(ignored, way, explicit_false):
    """Install the ignore subset the way a user would; returns a label."""
    from nbdime import nbdiffapp
    from nbdime.args import process_diff_flags
    d = _workdir()
    cwd = os.path.join(d, "cwd")
    cfgfile = os.path.join(cwd, "nbdime_config.json")
    if os.path.exists(cfgfile):
        os.remove(cfgfile)
    argv = []
    if way == "extension":
        # the order of the server extension: configured ignorables are processed as flags first, the Ignore mapping is applied afterwards
        from nbdime.config import Namespace
        from nbdime.ignorables import diff_ignorables
        from nbdime.diffing.notebooks import set_notebook_diff_ignores
        order = [c for c in CATS if c in ignored]
        by_flag, by_map = order[::2], order[1::2]
        config = {c: False for c in by_flag}
        ns = Namespace({k: config.get(k, None) for k in diff_ignorables})
        process_diff_flags(ns)
        ign = {}
        for c in by_map:
            for p, v in IGNORE_KEYS[c].items():
                ign[p] = (list(ign.get(p) or []) + v) if isinstance(v, list) else v
        if ign:
            set_notebook_diff_ignores(ign)
        return
    if way == "positive":
        argv = ["-" + FLAG[c] for c in CATS if c not in ignored]
    elif way == "negative":
        argv = ["-" + FLAG[c].upper() for c in ignored]
    elif way == "long":
        argv = ["--ignore-" + c for c in ignored]
    else:
        table = IGNORE_KEYS if way == "config_keys" else IGNORE_PATHS
        ign = {}
        for c in CATS:
            if c in ignored:
                for p, v in table[c].items():
                    if isinstance(v, list):
                        ign[p] = list(ign.get(p) or []) + v      # key lists for one path are merged
                    else:
                        ign[p] = v
        for c in CATS:
            if c not in ignored and explicit_false:
                for p, v in table[c].items():
                    if p not in ign:
                        ign[p] = False
        with open(cfgfile, "w") as f:
            if way == "config_split" and len(ign) >= 2:
                # the mapping spread over a general and a specific section of the entry point (merged path by path)
                ks = sorted(ign)
                json.dump({"Diff": {"Ignore": {k: ign[k] for k in ks[::2]}}, "NbDiff": {"Ignore": {k: ign[k] for k in ks[1::2]}}}, f)
            else:
                json.dump({"NbDiff": {"Ignore": ign}}, f)
    saved = (sys.argv[:], os.getcwd(), dict(os.environ))
    os.environ["JUPYTER_CONFIG_DIR"] = os.path.join(d, "cfg")
    os.environ["JUPYTER_CONFIG_PATH"] = os.path.join(d, "cfg")
    os.chdir(cwd)
    sys.argv[:] = ["nbdiff"]
    try:
        parser = nbdiffapp._build_arg_parser()
        parser.prog = "nbdiff"
        args = parser.parse_args(argv + ["a.ipynb", "b.ipynb"])
        process_diff_flags(args)
    finally:
        sys.argv[:], cwd0, env = saved
        os.chdir(cwd0)
        os.environ.clear()
        os.environ.update(env)
        if os.path.exists(cfgfile):
            os.remove(cfgfile)


def ways_for(ignored):
    ws = ["negative", "long", "config", "config_keys"]
    if len(ignored) < 6:
        ws.append("positive")       # 'everything ignored' cannot be said with positive flags
    if not ignored:
        ws = ["positive", "config", "config_keys"]  # no negative flag at all = nothing configured
    if len(ignored) >= 2:
        ws += ["extension", "config_split"]
    return ws


def run_case(case):
    import nbdime
    out = Outcome()
    a, b = case["a"], case["b"]
    diffcats = differing_categories(a, b)
    nt = False
    for si, ignored in enumerate(SUBSETS):
        ws = ways_for(ignored)
        way = ws[(si + case["rot"]) % len(ws)]
        ign = set(ignored)
        reset_state()
        try:
            configure(ign, way, case["explicit_false"])
        except BaseException as e:
            if isinstance(e, KeyboardInterrupt):
                raise
            out.fail_exc("configure", e, detail={"ignored": sorted(ign), "way": way})
            continue
        out.count("diffs")
        out.count("way_" + way)
        try:
            d = plain(nbdime.diff_notebooks(to_nb(a), to_nb(b)))
        except Exception as e:
            out.fail_exc("diff_completes", e, detail={"ignored": sorted(ign), "way": way})
            continue
        finally:
            reset_state()
        detail = {"ignored": sorted(ign), "way": way}
        if "structure" not in diffcats and (diffcats & ign) and (diffcats - ign):
            nt = True
            out.count("diffs_nontrivial")
        bad = entries_in_ignored(d, ign)
        if bad:
            p, op = bad[0]
            out.fail("nothing_inside_ignored_category", "entry_in_ignored_category", "%s %s (%s ignored)" % (op, p, _cat_hit(p, ign)),
                     detail=dict(detail, path=p, op=op))
        try:
            patched = refpatch(a, d)
            if canon(project(patched, ign)) != canon(project(b, ign)):
                out.fail("non_ignored_parts_reproduced", "projection_differs", _first_difference(project(patched, ign), project(b, ign)),
                         detail=detail)
        except RefPatchError as e:
            out.fail("non_ignored_parts_reproduced", "diff_not_applicable", str(e), detail=detail)
        if "structure" not in diffcats and diffcats and diffcats <= ign and "sources" not in diffcats and d:
            out.fail("only_ignored_differences_give_empty_diff", "nonempty_diff", "differs only in %s" % ",".join(sorted(diffcats)),
                     detail=dict(detail, differs=sorted(diffcats)))
    # an 'Ignore' mapping may also name individual paths of a category: exactly those are hidden
    for paths in case.get("path_subsets", []):
        S = set(paths)
        reset_state()
        try:
            configure_paths(S)
            d = plain(nbdime.diff_notebooks(to_nb(a), to_nb(b)))
        except BaseException as e:
            if isinstance(e, KeyboardInterrupt):
                raise
            out.fail_exc("diff_completes", e, detail={"ignored_paths": sorted(S)})
            continue
        finally:
            reset_state()
        out.count("diffs")
        out.count("way_config_single_paths")
        detail = {"ignored_paths": sorted(S), "way": "config_single_paths"}
        bad = entries_under(d, S)
        if bad:
            out.fail("nothing_inside_ignored_category", "entry_under_ignored_path", "%s %s" % (bad[0][1], bad[0][0]), detail=detail)
        try:
            patched = refpatch(a, d)
            if canon(project_paths(patched, S)) != canon(project_paths(b, S)):
                out.fail("non_ignored_parts_reproduced", "projection_differs",
                         _first_difference(project_paths(patched, S), project_paths(b, S)), detail=detail)
        except RefPatchError as e:
            out.fail("non_ignored_parts_reproduced", "diff_not_applicable", str(e), detail=detail)
    out.nontrivial = nt
    out.ntkey = [a, b, case["rot"]]
    return out


def configure_paths(S):
    from nbdime import nbdiffapp
    d = _workdir()
    cwd = os.path.join(d, "cwd")
    cfgfile = os.path.join(cwd, "nbdime_config.json")
    with open(cfgfile, "w") as f:
        json.dump({"NbDiff": {"Ignore": {p: True for p in S}}}, f)
    saved = (sys.argv[:], os.getcwd(), dict(os.environ))
    os.environ["JUPYTER_CONFIG_DIR"] = os.path.join(d, "cfg")
    os.environ["JUPYTER_CONFIG_PATH"] = os.path.join(d, "cfg")
    os.chdir(cwd)
    sys.argv[:] = ["nbdiff"]
    try:
        parser = nbdiffapp._build_arg_parser()
        parser.prog = "nbdiff"
        parser.parse_args(["a.ipynb", "b.ipynb"])
    finally:
        sys.argv[:], cwd0, env = saved
        os.chdir(cwd0)
        os.environ.clear()
        os.environ.update(env)
        os.remove(cfgfile)


def entries_under(d, S, path=""):
    bad = []
    for e in d:
        k = e["key"]
        p = path + "/" + ("*" if isinstance(k, int) else str(k))
        # the key of an ignored path appearing / disappearing as a whole is a change of the parent object, not inside the path
        if any(p.startswith(s_ + "/") or (p == s_ and e["op"] in ("patch", "replace")) for s_ in S):
            bad.append((p, e["op"]))
        elif e["op"] == "patch":
            bad += entries_under(e["diff"], S, p)
    return bad


def project_paths(nb, S):
    nb = copy.deepcopy(nb)
    if "/metadata" in S:
        nb["metadata"] = {}
    for c in nb["cells"]:
        if "/cells/*/source" in S:
            c["source"] = ""
        if "/cells/*/metadata" in S:
            c["metadata"] = {}
        if "/cells/*/attachments" in S:
            c.pop("attachments", None)
        if "outputs" in c:
            if "/cells/*/outputs" in S:
                c["outputs"] = []
            for o in c["outputs"]:
                if "/cells/*/outputs/*/metadata" in S and "metadata" in o:
                    o["metadata"] = {}
    return nb


def _cat_hit(p, ign):
    return ",".join(sorted(categories_of(p) & ign)) or "?"


def _cells_with_similar_sources(case, f):
    """Two cells of one type whose sources the aligner cannot tell apart (equal, both shorter than its 10-character
    'short string' cutoff, or difflib ratio above its 0.7 threshold): alignment is then decided by outputs."""
    import difflib
    for nb in (case["a"], case["b"]):
        cells = nb["cells"]
        for i in range(len(cells)):
            for j in range(i + 1, len(cells)):
                x, y = cells[i], cells[j]
                if x["cell_type"] != y["cell_type"]:
                    continue
                sx, sy = x["source"], y["source"]
                if sx == sy or (len(sx) < 10 and len(sy) < 10) or (
                        sx and sy and difflib.SequenceMatcher(None, sx, sy, autojunk=False).ratio() > 0.7):
                    return True
    return False


def _indistinguishable_outputs(case, f):
    """Some cell holds two execute_result outputs equal but for their execution counts: the output aligner tells them apart by the count."""
    for nb in (case["a"], case["b"]):
        for c in nb["cells"]:
            outs = [canon({k: v for k, v in o.items() if k != "execution_count"}) for o in c.get("outputs", []) if o.get("output_type") == "execute_result"]
            if len(outs) != len(set(outs)):
                return True
    return False


def _ids_permuted(case, f):
    """Some cell of b carries, at its position, an id that a gives to a cell at another position: the cell aligner follows the ids."""
    ia = [c.get("id") for c in case["a"]["cells"]]
    ib = [c.get("id") for c in case["b"]["cells"]]
    return any(x is not None and x in ia and ia.index(x) != k for k, x in enumerate(ib)) and sorted(map(str, ia)) != [] and ia != ib


DISCRIMINATORS = {"cells_with_indistinguishable_sources": _cells_with_similar_sources,
                  "outputs_equal_but_for_execution_count": _indistinguishable_outputs, "ids_exchanged_between_positions": _ids_permuted}
