"""C03  Three-way merge always completes for valid notebooks under every strategy."""
from hypothesis import strategies as st

from ..runner import Outcome
from ..gen import notebooks as N
from ..gen import strategies as S
from .. import mergeutil as M

ID = "C03"
LEVEL = "exploration"
RULE = ("triples (base, local, remote) of schema-valid notebooks: local/remote are edit scripts of base (60% with a forced two-sided shape: "
        "delete-vs-edit, both edit source/outputs/metadata/attachments/execution counts, both insert at one position similar or not, "
        "insert next to edited/deleted cell, both append without newline, both change nbformat_minor ...; 30% free edit scripts; 10% "
        "unrelated), each merged under K strategy configurations drawn from the 4x5x7x2 command-line combinations + 'mergetool' "
        "(argparse namespace built by the real nbmerge parser) x text-merge renderer {git merge-file, diff3, builtin} (patched "
        "prettyprint.which). quick: K=6 sampled per triple; thorough: all 281 with git plus 30 sampled with diff3/builtin. Oracle: "
        "merge_notebooks returns (notebook, decisions); any exception is a failure bucketed by innermost nbdime frame. Non-trivial: "
        "both diffs non-empty and some decision carries both a local and a remote diff; distinct = canonical JSON of the triple.")
ASSUMPTIONS = ["renderer availability switched by patching nbdime.prettyprint.which inside the harness process",
               "nbformat major version is never changed on both sides (documented internal-error 'fail' strategy)"]
SHRINK_KEYS = ["base", "local", "remote"]
SHRINK_EVALS = 600


def valid(case):
    return all(not N.schema_errors(case[k]) for k in ("base", "local", "remote"))


def precheck(case):
    for k in ("base", "local", "remote"):
        e = N.schema_errors(case[k])
        if e:
            return "%s is not schema-valid: %s" % (k, e[0])
    return None


def budget(tier):
    return 6000 if tier == "quick" else 10000


def strategy(tier):
    N.enable_long_texts(tier == "thorough")
    if tier == "quick":
        combos = st.lists(S.strategy_args(), min_size=6, max_size=6)
    else:
        combos = st.lists(S.strategy_args(renderers=["diff3", "builtin"]), min_size=30, max_size=30).map(
            lambda extra: [dict(c, renderer="git") for c in S.all_combos()] + extra)
    return st.tuples(N.triple(), combos).map(
        lambda t: {"base": t[0][0], "local": t[0][1], "remote": t[0][2], "shape": t[0][3], "combos": t[1]})


def run_case(case):
    out = Outcome()
    base, local, remote = case["base"], case["local"], case["remote"]
    out.label("shape_" + case.get("shape", "?"))
    nt = False
    seen = set()
    for a in case["combos"]:
        key = M.combo_label(a)
        if key in seen:
            continue
        seen.add(key)
        out.count("merges")
        out.count("renderer_" + a.get("renderer", "git"))
        out.count("strategy_" + a["merge"])
        merged, dec, exc = M.run_merge(base, local, remote, a)
        if exc is not None:
            out.fail_exc("merge_completes", exc, detail={"args": a})
            continue
        if M.two_sided(dec):
            nt = True
        if M.conflicted(dec):
            out.count("merges_with_open_conflict")
    out.nontrivial = nt
    out.ntkey = [base, local, remote]
    return out


def _args_of(f):
    return (f.get("detail") or {}).get("args") or {}


def _both_change_cell_type(case, f):
    """Some base cell (matched by id, or by position when there are no ids) has another cell_type on both sides."""
    def types(nb):
        return {c.get("id", i): c["cell_type"] for i, c in enumerate(nb["cells"])}
    b, l, r = types(case["base"]), types(case["local"]), types(case["remote"])
    return any(k in l and k in r and l[k] != t and r[k] != t for k, t in b.items())


def _leftover_removed(case, f):
    """The base holds a LOCAL_/REMOTE_ attachment name (named in the message) that a side no longer has in some cell."""
    import re
    m = re.search(r"'((?:LOCAL|REMOTE)_[^']*)'", f.get("msg") or "")
    if not m:
        return False
    name = m.group(1)

    def count(nb):
        return sum(1 for c in nb["cells"] if name in (c.get("attachments") or {}))
    return count(case["base"]) > 0 and (count(case["local"]) < count(case["base"]) or count(case["remote"]) < count(case["base"]))


DISCRIMINATORS = {"both_sides_change_cell_type": _both_change_cell_type, "leftover_attachment_removed_by_a_side": _leftover_removed}
