"""C19  Option resolution follows flag > most specific config section > default."""
import contextlib
import copy
import io
import json
import os
import shutil
import sys
import tempfile

from hypothesis import strategies as st

from ..runner import Outcome, canon

ID = "C19"
LEVEL = "exploration"
RULE = ("configurations: one of the 11 entry points x values assigned to options in any subset of the documented sections (a section only "
        "sets options it defines; values type-correct and non-null) spread over up to three directories (cwd, JUPYTER_CONFIG_DIR, "
        "a system-level directory) x a subset of options also given as flags x invocation route (console-script name, or the `nbdime "
        "<sub-command>` dispatcher route where one exists). Oracle: an executable model of the documented rule (flag > own section > "
        "GitDiff/GitMerge > Diff/Merge > WebTool > Web > Global > built-in default; per section the highest-priority directory wins, cwd first "
        "then the order jupyter_config_path() returns; 'Ignore' merged path by path with the same precedence) compared with "
        "nbdime.config.build_config(entrypoint) and, for the entry points with a parser builder, with the namespace the real parser returns "
        "(before process_diff_flags), and with the parsed text of `nbdime --config` (all 11 entry points resolved one after the other in one process) and "
        "of the entry point's own `<cmd> --config`; in a fifth of the two-directory cases the working directory IS the user-level or system-level "
        "configuration directory. Non-trivial: >=2 sections and >=2 directories set the same option, or 'Ignore' set in >=2 sections with "
        "an overlapping path; distinct = canonical JSON of the configuration.")
ASSUMPTIONS = ["section membership and precedence taken from docs/source/config.rst and the property statement, not from the class hierarchy",
               "workdirectory's built-in default is not compared (both candidates are 'the cwd at start-up')",
               "jupyter_server / jinja2 stubs on sys.path so the web entry points' parsers can be imported"]
SHRINK_KEYS = ["files", "flags"]
SHRINK_EVALS = 300

IGNORABLES = ["sources", "outputs", "metadata", "id", "attachments", "details"]
DIFFOPTS = IGNORABLES + ["Ignore", "color_words"]
MERGEOPTS = DIFFOPTS + ["merge_strategy", "input_strategy", "output_strategy", "ignore_transients"]
WEBOPTS = ["port", "ip", "base_url", "browser", "persist", "workdirectory"]
SECTION_OPTS = {
    "Global": ["log_level"], "Web": WEBOPTS, "WebTool": WEBOPTS, "Diff": DIFFOPTS, "GitDiff": DIFFOPTS, "Merge": MERGEOPTS, "GitMerge": MERGEOPTS,
    "NbDiff": DIFFOPTS, "NbDiffWeb": DIFFOPTS + WEBOPTS, "NbMerge": MERGEOPTS, "NbMergeWeb": MERGEOPTS + WEBOPTS + ["show_base"],
    "NbShow": IGNORABLES + ["Ignore"], "Server": WEBOPTS, "Extension": DIFFOPTS, "NbDiffDriver": DIFFOPTS, "NbDiffTool": DIFFOPTS + WEBOPTS,
    "NbMergeDriver": MERGEOPTS, "NbMergeTool": MERGEOPTS + WEBOPTS,
}
# most specific first (docs/source/config.rst "Sections" + statement)
PRECEDENCE = {
    "nbdiff": ["NbDiff", "GitDiff", "Diff", "Global"],
    "nbdiff-web": ["NbDiffWeb", "GitDiff", "Diff", "Web", "Global"],
    "nbmerge": ["NbMerge", "Merge", "Global"],
    "nbmerge-web": ["NbMergeWeb", "Merge", "Web", "Global"],
    "nbshow": ["NbShow", "Global"],
    "server": ["Server", "Web", "Global"],
    "extension": ["Extension", "GitDiff", "Diff", "Global"],
    "git-nbdiffdriver": ["NbDiffDriver", "GitDiff", "Diff", "Global"],
    "git-nbdifftool": ["NbDiffTool", "GitDiff", "Diff", "WebTool", "Web", "Global"],
    "git-nbmergedriver": ["NbMergeDriver", "GitMerge", "Merge", "Global"],
    "git-nbmergetool": ["NbMergeTool", "GitMerge", "Merge", "WebTool", "Web", "Global"],
}
DEFAULTS = {"log_level": "INFO", "port": 0, "ip": "127.0.0.1", "base_url": "/", "browser": None, "persist": False, "color_words": False,
            "merge_strategy": "inline", "input_strategy": None, "output_strategy": None, "ignore_transients": True, "show_base": True,
            "Ignore": {}, **{k: None for k in IGNORABLES}}
SERVER_DEFAULT_PORT = 8888
DISPATCH = {"nbdiff": "diff", "nbmerge": "merge", "nbshow": "show", "nbdiff-web": "diff-web", "nbmerge-web": "merge-web", "server": "server"}

VALUES = {
    "log_level": ["DEBUG", "WARN", "ERROR", "CRITICAL"], "port": [7777, 8080, 9001], "ip": ["localhost", "0.0.0.0", "::1"],
    "base_url": ["/x/", "/pre/fix/"], "browser": ["firefox", "chromium"], "persist": [True, False], "workdirectory": ["/tmp", "/usr"],
    "color_words": [True, False], "merge_strategy": ["use-base", "use-local", "use-remote", "inline"],
    "input_strategy": ["use-base", "use-local", "inline"], "output_strategy": ["use-remote", "remove", "clear-all"],
    "ignore_transients": [True, False], "show_base": [True, False], **{k: [True, False] for k in IGNORABLES},
}
IGN_PATHS = ["/cells/*/outputs", "/cells/*/metadata", "/metadata", "/cells/*/attachments"]
IGN_VALUES = [True, False, ["collapsed"], ["tags", "deletable"]]


def budget(tier):
    return 6000 if tier == "quick" else 60000


def valid(case):
    return True


@st.composite
def configuration(draw):
    ep = draw(st.sampled_from(sorted(PRECEDENCE)))
    secs = PRECEDENCE[ep]
    files = []
    sign = draw(st.booleans())          # ignorables mostly configured with one sign (both signs together are rejected when used)
    for d in range(draw(st.sampled_from([1, 2, 2, 3, 3]))):
        content = {}
        for sec in draw(st.lists(st.sampled_from(secs), min_size=1, max_size=len(secs), unique=True)):
            opts = {}
            for o in draw(st.lists(st.sampled_from(SECTION_OPTS[sec]), min_size=1, max_size=3, unique=True)):
                if o == "Ignore":
                    opts[o] = {p: copy.deepcopy(draw(st.sampled_from(IGN_VALUES)))
                               for p in draw(st.lists(st.sampled_from(IGN_PATHS), min_size=1, max_size=3, unique=True))}
                elif o in IGNORABLES and draw(st.sampled_from([True, True, True, True, False])):
                    opts[o] = sign
                else:
                    opts[o] = draw(st.sampled_from(VALUES[o]))
                if draw(st.sampled_from(range(10))) == 4:
                    opts[o] = None      # null in a file: "forget what lower-priority files say about this option of this section"
            content[sec] = opts
        files.append(content)
    own = SECTION_OPTS[secs[0]] + ["log_level"]
    flags = {}
    for o in draw(st.lists(st.sampled_from(sorted(set(own) - {"Ignore"})), max_size=2, unique=True)):
        flags[o] = draw(st.sampled_from(VALUES[o]))
    route = draw(st.sampled_from(["script", "script", "dispatcher"])) if ep in DISPATCH else "script"
    # the working directory may itself be one of jupyter's configuration directories (running from ~/.jupyter or <prefix>/etc/jupyter)
    cwd_is = draw(st.sampled_from([None, None, None, "system", "user"])) if len(files) == 2 else None
    return {"entrypoint": ep, "files": files, "flags": flags, "route": route, "cwd_is": cwd_is}


def strategy(tier):
    return configuration()


# ----------------------------------------------------------------------------- the model

def model(case, with_flags=True):
    ep = case["entrypoint"]
    secs = PRECEDENCE[ep]
    own = SECTION_OPTS[secs[0]] + ["log_level"]
    eff = {}
    for o in own:
        if o == "workdirectory":
            continue
        if o == "Ignore":
            merged = {}
            for sec in reversed(secs):                 # least specific first, more specific overwrite per path
                per_section = {}
                for content in reversed(case["files"]):  # lowest priority directory first; null forgets
                    if "Ignore" in content.get(sec, {}):
                        ign = content[sec]["Ignore"]
                        if ign is None:
                            per_section = {}
                        else:
                            for pth, v in ign.items():
                                if v is None:
                                    per_section.pop(pth, None)
                                else:
                                    per_section[pth] = copy.deepcopy(v)
                merged.update(per_section)
            eff[o] = merged
            continue
        val = DEFAULTS[o] if not (o == "port" and ep == "server") else SERVER_DEFAULT_PORT
        for sec in secs:                               # most specific section that (still) sets it ...
            sval, has = None, False
            for content in reversed(case["files"]):    # ... after the directories are layered, lowest priority first; null forgets
                if o in content.get(sec, {}):
                    if content[sec][o] is None:
                        has = False
                    else:
                        sval, has = content[sec][o], True
            if has:
                val = sval
                break
        eff[o] = val
    # workdirectory: only compared when configured
    for sec in secs:
        sval, has = None, False
        for content in reversed(case["files"]):        # lowest priority first; null forgets
            if "workdirectory" in content.get(sec, {}):
                sval, has = content[sec]["workdirectory"], content[sec]["workdirectory"] is not None
        if has and "workdirectory" in own:
            eff["workdirectory"] = sval
            break
    if with_flags:
        for o, v in case["flags"].items():
            if flag_argv(o, v) is not None:
                eff[o] = v
    return eff


def flag_argv(o, v):
    if o in IGNORABLES:
        return ["--" + o] if v else ["--ignore-" + o]
    if o in ("color_words", "persist"):
        return ["--" + o.replace("_", "-")] if v else None       # store_true flags cannot say False
    if o == "ignore_transients":
        return ["--no-ignore-transients"] if not v else None
    if o == "show_base":
        return ["--no-base"] if not v else None
    if o == "port":
        return ["--port", str(v)]
    if o in ("ip", "browser", "workdirectory"):
        return ["--" + o, str(v)]
    if o == "base_url":
        return ["--base-url", v]
    if o in ("merge_strategy", "input_strategy", "output_strategy"):
        return ["--" + o.replace("_", "-"), v]
    if o == "log_level":
        return ["--log-level", v]
    return None


# ----------------------------------------------------------------------------- running the real thing

_tmp = {}


def _dirs():
    if "d" not in _tmp:
        d = tempfile.mkdtemp(prefix="vp_c19_")
        _tmp["d"] = d
        import atexit
        atexit.register(shutil.rmtree, d, True)
    d = _tmp["d"]
    out = [os.path.join(d, n) for n in ("cwd", "user", "system")]
    for p in out:
        shutil.rmtree(p, ignore_errors=True)
        os.makedirs(p)
    return out


@contextlib.contextmanager
def installed(case):
    import jupyter_core.paths as jp
    import nbdime.config as nc
    dirs = _dirs()
    saved = (sys.argv[:], os.getcwd(), dict(os.environ), jp.SYSTEM_CONFIG_PATH, sys.stdout, sys.stderr)
    os.environ["JUPYTER_CONFIG_DIR"] = dirs[1]
    os.environ.pop("JUPYTER_CONFIG_PATH", None)
    os.environ["JUPYTER_PREFER_ENV_PATH"] = "0"
    os.environ["JUPYTER_PLATFORM_DIRS"] = "0"
    jp.SYSTEM_CONFIG_PATH = [dirs[2]]
    jp.ENV_CONFIG_PATH = [] if hasattr(jp, "ENV_CONFIG_PATH") else None
    if case.get("cwd_is") == "system":
        dirs[0] = dirs[2]
    elif case.get("cwd_is") == "user":
        dirs[0] = dirs[1]
    os.chdir(dirs[0])
    nc._config_cache.clear()
    try:
        # directory priority: cwd first, then the order jupyter_config_path() returns
        order = [dirs[0]] + [p for p in jp.jupyter_config_path() if p in dirs[1:] and p != dirs[0]]
        for content, path in zip(case["files"], order):
            with open(os.path.join(path, "nbdime_config.json"), "w") as f:
                json.dump(content, f)
        sys.stdout, sys.stderr = io.StringIO(), io.StringIO()
        yield len(order)
    finally:
        sys.argv[:], cwd, env, jp.SYSTEM_CONFIG_PATH, sys.stdout, sys.stderr = saved
        os.chdir(cwd)
        os.environ.clear()
        os.environ.update(env)
        nc._config_cache.clear()


def real_parser(ep):
    if ep == "nbdiff":
        from nbdime import nbdiffapp
        return nbdiffapp._build_arg_parser(), ["a.ipynb", "b.ipynb"]
    if ep == "nbmerge":
        from nbdime import nbmergeapp
        return nbmergeapp._build_arg_parser(), ["b.ipynb", "l.ipynb", "r.ipynb"]
    if ep == "nbshow":
        from nbdime import nbshowapp
        return nbshowapp._build_arg_parser(), ["a.ipynb"]
    if ep == "nbdiff-web":
        from nbdime.webapp import nbdiffweb
        return nbdiffweb.build_arg_parser(), ["a.ipynb", "b.ipynb"]
    if ep == "nbmerge-web":
        from nbdime.webapp import nbmergeweb
        return nbmergeweb.build_arg_parser(), ["b.ipynb", "l.ipynb", "r.ipynb"]
    if ep == "server":
        from nbdime.webapp import nbdimeserver
        return nbdimeserver._build_arg_parser(), []
    return None, None


class _Captured(Exception):
    pass


def git_entrypoint_namespace(ep, argv):
    """Namespace the git drivers / tools hand to their worker, obtained by calling the real main() with the worker patched out."""
    box = {}

    def capture(*a, **k):
        box["ns"] = [x for x in a if hasattr(x, "__dict__") and hasattr(x, "subcommand")][-1]
        return 0
    if ep == "git-nbmergedriver":
        from nbdime.vcs.git import mergedriver as m
        saved = m.nbmergeapp.main_merge
        m.nbmergeapp.main_merge = capture
        try:
            m.main(["merge"] + argv + ["b.ipynb", "l.ipynb", "r.ipynb", "7", "p.ipynb"])
        finally:
            m.nbmergeapp.main_merge = saved
    elif ep == "git-nbdiffdriver":
        from nbdime.vcs.git import diffdriver as m
        from nbdime import nbdiffapp
        saved = nbdiffapp.main_diff
        nbdiffapp.main_diff = capture
        try:
            m.main(["diff"] + argv + ["p.ipynb", "a.ipynb", "0" * 40, "100644", "b.ipynb", "1" * 40, "100644"])
        finally:
            nbdiffapp.main_diff = saved
    elif ep == "git-nbdifftool":
        from nbdime.vcs.git import difftool as m
        saved = m.show_diff
        m.show_diff = capture
        try:
            m.main(["diff"] + argv + ["l.ipynb", "r.ipynb", "p.ipynb"])
        finally:
            m.show_diff = saved
    elif ep == "git-nbmergetool":
        from nbdime.vcs.git import mergetool as m
        saved = m.nbmergetool.main_parsed
        m.nbmergetool.main_parsed = capture
        try:
            m.main(["merge"] + argv + ["b.ipynb", "l.ipynb", "r.ipynb", "m.ipynb"])
        finally:
            m.nbmergetool.main_parsed = saved
    else:
        return None
    return vars(box["ns"]) if "ns" in box else None


def run_case(case):
    import nbdime.config as nc
    from ..nbd import reset_state
    out = Outcome()
    ep = case["entrypoint"]
    out.label("ep_" + ep, "route_" + case["route"], "dirs_%d" % len(case["files"]))
    # non-triviality
    setters = {}
    for di, content in enumerate(case["files"]):
        for sec, opts in content.items():
            for o, v in opts.items():
                if o == "Ignore":
                    for p in (v or {}):
                        setters.setdefault(("Ignore", p), set()).add((sec, di))
                else:
                    setters.setdefault(o, set()).add((sec, di))
    out.nontrivial = any(len({s for s, _ in v}) >= 2 and (len({d for _, d in v}) >= 2 or isinstance(k, tuple)) for k, v in setters.items())
    reset_state()
    with installed(case) as ndirs:
        if ndirs < len(case["files"]):
            raise RuntimeError("could not place %d config files (jupyter_config_path gave %d dirs)" % (len(case["files"]), ndirs))
        # level 1: build_config
        want = model(case, with_flags=False)
        try:
            got = nc.build_config(ep)
        except Exception as e:
            out.fail_exc("build_config_returns", e)
            got = None
        if got is not None:
            compare(out, "build_config", want, got, case, level="config")
        # level 2: the parser namespace
        sys.argv[:] = [ep if case["route"] == "script" else "nbdime"]
        try:
            parser, positional = real_parser(ep)
        except Exception as e:
            out.fail_exc("parser_builds", e)
            parser = None
        if parser is None and ep.startswith("git-"):
            argv = []
            for o, v in case["flags"].items():
                fa = flag_argv(o, v)
                if fa and o != "log_level":            # --log-level belongs to the top-level parser, before the sub-command
                    argv += fa
            try:
                ns = git_entrypoint_namespace(ep, argv)
            except SystemExit:
                out.count("parser_rejected_flags")
                ns = None
            except Exception as e:
                out.fail_exc("parser_returns", e)
                ns = None
            if ns is not None:
                out.count("parser_level_comparisons")
                out.count("git_entry_point_namespaces")
                case2 = dict(case, flags={k: v for k, v in case["flags"].items() if k != "log_level"})
                want = model(case2, with_flags=True)
                want.pop("Ignore", None)
                compare(out, "parser", want, ns, case2, level="parser")
        if parser is not None:
            out.count("parser_level_comparisons")
            argv = []
            for o, v in case["flags"].items():
                fa = flag_argv(o, v)
                if fa:
                    argv += fa
            try:
                ns = vars(parser.parse_args(argv + positional))
            except SystemExit:
                out.count("parser_rejected_flags")
                ns = None
            except Exception as e:
                out.fail_exc("parser_returns", e)
                ns = None
            if ns is not None:
                want = model(case, with_flags=True)
                if ep == "server" and "port" not in case["flags"] and not any("port" in c.get(s, {}) for c in case["files"] for s in PRECEDENCE[ep]):
                    want["port"] = SERVER_DEFAULT_PORT
                want.pop("Ignore", None)
                compare(out, "parser", want, ns, case, level="parser")
        # level 3: the `--config` listings - every entry point resolved one after the other in this one process (`nbdime --config`),
        # and the entry point's own `<cmd> --config`
        def mixed(ep_):
            # nbdime rejects ignorables configured with both signs ("must either all be negative or all positive") wherever it uses them
            vals = {v for o, v in model(dict(case, entrypoint=ep_), with_flags=False).items() if o in IGNORABLES and v is not None}
            return len(vals) > 1
        listing = None
        has_null = any(v is None or (isinstance(v, dict) and any(x is None for x in v.values()))
                       for c in case["files"] for opts in c.values() for v in opts.values())
        if has_null:
            out.label("config_with_null_values")
        if has_null:
            # (with include_none the listing keeps the nulls themselves; what it should print for them is not specified)
            out.count("config_listing_skipped_(null_values)")
        elif any(mixed(e) for e in PRECEDENCE):
            out.count("config_listing_skipped_(ignorables_configured_with_both_signs)")
        else:
            try:
                listing = parse_listing(run_listing(lambda: __import__("nbdime.__main__").__main__.main_dispatch(["--config"])))
            except Exception as e:
                out.fail_exc("config_listing_returns", e)
        if listing is not None:
            out.count("config_listings_compared")
            for ep2 in sorted(PRECEDENCE):
                compare_listing(out, "config_listing", model(dict(case, entrypoint=ep2), with_flags=False), listing.get(PRECEDENCE[ep2][0]), case, ep2)
        if parser is not None and case["route"] == "script" and not mixed(ep) and not has_null:
            try:
                own = parse_listing(run_listing(lambda: real_parser(ep)[0].parse_args(["--config"])))
                out.count("own_config_listings_compared")
                compare_listing(out, "own_config_listing", model(case, with_flags=False), own.get(PRECEDENCE[ep][0]), case, ep)
            except Exception as e:
                out.fail_exc("config_listing_returns", e)
        if ep.startswith("git-") and not mixed(ep) and not has_null:
            # the git drivers / tools advertise --config on the top-level parser and on their diff / merge sub-command
            import importlib
            mod = importlib.import_module("nbdime.vcs.git." + {"git-nbdiffdriver": "diffdriver", "git-nbmergedriver": "mergedriver",
                                                               "git-nbdifftool": "difftool", "git-nbmergetool": "mergetool"}[ep])
            sub = "diff" if "diff" in ep else "merge"
            for form, argv in (("top", ["--config"]), ("sub", [sub, "--config"])):
                try:
                    sys.argv[:] = [ep]
                    text = run_listing(lambda: mod.main(list(argv)))
                    if text.lstrip().startswith("usage:"):
                        out.count("git_sub_command_without_--config_option")
                        continue
                    own = parse_listing(text)
                    out.count("git_entry_point_config_listings_compared")
                    compare_listing(out, "own_config_listing", model(case, with_flags=False), own.get(PRECEDENCE[ep][0]), case, ep)
                except Exception as e:
                    out.fail_exc("config_listing_returns", e, detail={"form": "%s %s" % (ep, " ".join(argv))})
    if case.get("cwd_is"):
        out.label("cwd_is_also_the_%s_config_directory" % case["cwd_is"])
    reset_state()
    out.ntkey = case
    return out


def run_listing(fn):
    """Text `--config` writes to stderr (it ends with SystemExit)."""
    buf = io.StringIO()
    saved = sys.stderr
    sys.stderr = buf
    try:
        fn()
    except SystemExit:
        pass
    finally:
        sys.stderr = saved
    return buf.getvalue()


def parse_listing(text):
    """{section header: {option: value | "<unset>" | {path: value}}} from the pretty-printed listing."""
    res, sec, sub = {}, None, None
    for line in text.splitlines():
        if not line.strip() or line.startswith("All available"):
            continue
        ind = len(line) - len(line.lstrip(" "))
        k, _, v = line.strip().partition(":")
        v = v.strip()
        if ind == 0:
            sec = res.setdefault(k, {})
            sub = None
        elif ind == 2 and sec is not None:
            if v == "":
                sub = sec[k] = {}
            else:
                sub = None
                sec[k] = {} if v == "{}" else "<unset>" if v.startswith("<unset") else json.loads(v)
        elif ind == 4 and sub is not None:
            sub[k] = json.loads(v)
        else:
            raise RuntimeError("unparsable --config line: %r" % line)
    return res


def compare_listing(out, clause, want, got, case, ep):
    if got is None:
        out.fail(clause, "entry_point_missing_from_listing", ep, detail={"entry_point": ep})
        return
    for o, w in sorted(want.items()):
        if o in ("log_level", "workdirectory"):
            continue
        if o not in got:
            out.fail(clause, "option_missing", o, detail={"option": o, "entry_point": ep})
            return
        g = got[o]
        if w is None and o in IGNORABLES:
            w = "<unset>"
        if canon(g) != canon(w):
            out.fail(clause, "wrong_listed_value", "%s%s" % (o, "" if ep == case["entrypoint"] else " (of another entry point listed in the same run)"),
                     detail={"option": o, "entry_point": ep, "want": w, "got": g, "sections": _setters(case, o)})
            return


def compare(out, clause, want, got, case, level):
    for o, w in sorted(want.items()):
        if o not in got:
            if (w is None or w == {}) and level == "config":
                continue        # build_config prunes options whose value is None / empty
            if level == "parser":
                continue        # not an option of this command's parser
            if o == "log_level" and level == "config":
                # log_level belongs to the Global section only; build_config has no such key for any entry point
                if w != DEFAULTS["log_level"]:
                    out.fail(clause, "option_ignores_section", "log_level from Global",
                             detail={"option": o, "want": w, "got": "<absent>", "route": case["route"], "sections": _setters(case, o)})
                continue
            if level == "parser" and o in ("show_base",):
                continue
            out.fail(clause, "option_missing", o, detail={"option": o})
            continue
        g = got[o]
        if isinstance(g, tuple):
            g = list(g)
        if canon(g) != canon(w):
            given = level == "parser" and o in case["flags"] and flag_argv(o, case["flags"][o]) is not None   # some values have no flag spelling
            out.fail(clause, "wrong_effective_value", "%s (%s)" % (o, "flag given" if given else "from config"),
                     detail={"option": o, "want": w, "got": g, "route": case["route"], "sections": _setters(case, o), "level": level,
                             "flag_given": given})
            return


def _setters(case, o):
    return sorted({sec for c in case["files"] for sec, opts in c.items() if o in opts})


def _global_section_only(case, f):
    d = f.get("detail") or {}
    return d.get("option") == "log_level" and d.get("sections") == ["Global"] and not d.get("flag_given")


def _dispatcher_route(case, f):
    d = f.get("detail") or {}
    return d.get("route") == "dispatcher" and d.get("level") == "parser" and not d.get("flag_given")


DISCRIMINATORS = {"log_level_set_in_Global_section": _global_section_only, "dispatcher_route_skips_configuration": _dispatcher_route}
