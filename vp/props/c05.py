"""C05  Merge obeys identity, one-sided adoption, agreement and side symmetry."""
import copy
import itertools

from hypothesis import strategies as st

from ..runner import Outcome, canon
from ..gen import jsondocs as G
from ..gen import notebooks as N
from ..gen import strategies as S
from .. import mergeutil as M
from ..nbd import plain, reset_state, to_nb
from .c02 import _first_difference

ID = "C05"
LEVEL = "exploration"
RULE = ("(1) notebooks: base, X=edit script of base, and a second edit R; under 3 sampled strategy configurations (any of the 281) the laws "
        "merge(b,b,b)=b, merge(b,X,b)=X, merge(b,b,X)=X, merge(b,X,X)=X are checked, each conflict-free; symmetry merge(b,X,R) vs merge(b,R,X) "
        "under the side-neutral configurations {default inline, mergetool, use-base} and under use-local vs use-remote with roles swapped: "
        "same any-conflict verdict and, when conflict-free, equal canonical JSON. Precondition P (from the statement): diff(b,X) and diff(b,R) "
        "contain no addrange at the same (path,key); cases failing P are counted excluded_same_position_insert. (2) generic JSON through "
        "decide_merge+apply_decisions: every triple of lists of length<=2 over {0,1,true,'a',[0]}, of strings of length<=3 over {a,b,\\n}, of "
        "objects over keys {p,q} x 4 values (enumerated completely; thorough: lists<=3, strings<=4) plus hypothesis JSON triples. "
        "Non-trivial: X!=base (laws) / both diffs non-empty and P holds (symmetry); distinct = canonical JSON of the triple.")
ASSUMPTIONS = ["conflict-marker cell ids are pinned (nbformat random_cell_id patched) so runs are comparable",
               "P is evaluated on nbdime's own diffs of base->side"]
SHRINK_KEYS = ["base", "x", "r"]
SHRINK_EVALS = 800

NEUTRAL = [S.default_args(), {"merge": "mergetool", "input": None, "output": None, "transients": True, "renderer": "git"},
           {"merge": "use-base", "input": None, "output": None, "transients": True, "renderer": "git"},
           {"merge": "inline", "input": None, "output": "clear-all", "transients": False, "renderer": "builtin"}]


def valid(case):
    if case["kind"] == "nb":
        return all(not N.schema_errors(case[k]) for k in ("base", "x", "r"))
    b = case["base"]
    return all(type(case[k]) is type(b) for k in ("x", "r")) and isinstance(b, (list, dict, str))


def precheck(case):
    if case["kind"] == "nb":
        for k in ("base", "x", "r"):
            e = N.schema_errors(case[k])
            if e:
                return "%s not schema-valid: %s" % (k, e[0])
    return None


def budget(tier):
    return 4000 if tier == "quick" else 40000


def strategy(tier):
    nb = st.tuples(N.triple(), st.lists(S.strategy_args(), min_size=3, max_size=3)).map(
        lambda t: {"kind": "nb", "base": t[0][0], "x": t[0][1], "r": t[0][2], "combos": t[1]})

    @st.composite
    def type_only(draw):
        # X differs from base only in the JSON type of a value (base must carry the number the edit re-types)
        base = draw(N.notebook())
        base["metadata"].setdefault("vp_n", draw(st.sampled_from([0, 1, 2])))
        x = draw(N.type_only_edit(base))
        r = draw(N.edit_notebook(base, "R", max_steps=2))
        return {"kind": "nb", "base": base, "x": x, "r": r, "combos": draw(st.lists(S.strategy_args(), min_size=3, max_size=3))}
    nb = st.one_of(nb, nb, nb, nb, type_only())
    js = G.triple().map(lambda t: {"kind": "json", "base": t[0], "x": t[1], "r": t[2]})
    return st.one_of(nb, nb, nb, js)


OBJ_VALUES = [0, True, "a", [0]]


def exhaustive(tier, shard, nshards):
    L, S_ = (2, 3) if tier == "quick" else (3, 4)
    doms = (list(G.all_lists([0, 1, True, "a", [0]], L)), list(G.all_strings(["a", "b", "\n"], S_)),
            list(G.all_objects(["p", "7"], OBJ_VALUES)))
    n = 0
    for dom in doms:
        for b in dom:
            for x in dom:
                n += 1
                if n % nshards != shard:
                    continue
                for r in dom:
                    yield {"kind": "json", "base": b, "x": x, "r": r, "enum": True}


# ----------------------------------------------------------------------------- precondition P

def same_position_insert(dl, dr):
    """True iff both diffs contain an addrange at the same (path, key)."""
    la = {e["key"] for e in dl if e.get("op") == "addrange"}
    ra = {e["key"] for e in dr if e.get("op") == "addrange"}
    if la & ra:
        return True
    rp = {e["key"]: e for e in dr if e.get("op") == "patch"}
    for e in dl:
        if e.get("op") == "patch" and e["key"] in rp:
            if same_position_insert(e["diff"], rp[e["key"]]["diff"]):
                return True
    return False


# ----------------------------------------------------------------------------- generic JSON

def gmerge(b, l, r):
    from nbdime.merging.generic import decide_merge
    from nbdime.merging.decisions import apply_decisions
    reset_state()
    b, l, r = copy.deepcopy(b), copy.deepcopy(l), copy.deepcopy(r)
    dec = decide_merge(b, l, r)
    merged = apply_decisions(copy.deepcopy(b), dec)
    return plain(merged), any(d.get("conflict") for d in dec)


def run_json(case, out):
    import nbdime
    b, x, r = case["base"], case["x"], case["r"]
    cb, cx, cr = canon(b), canon(x), canon(r)
    out.label("json_" + type(b).__name__)

    def law(name, l_, r_, expect):
        try:
            m, conf = gmerge(b, l_, r_)
        except Exception as e:
            out.fail_exc("json_" + name + "_completes", e)
            return
        if conf:
            out.fail("json_" + name, "reports_conflict")
        elif canon(m) != canon(expect):
            out.fail("json_" + name, "wrong_result", _first_difference(m, expect))

    if not case.get("enum"):
        law("identity", b, b, b)
        law("one_sided_local", x, b, x)
        law("one_sided_remote", b, x, x)
        law("agreement", x, x, x)
    else:
        if cx == cb:
            law("one_sided_remote" if cr != cb else "identity", x, r, r)
        elif cr == cb:
            law("one_sided_local", x, r, x)
        elif cx == cr:
            law("agreement", x, r, x)
    # symmetry
    try:
        dl, dr = plain(nbdime.diff(copy.deepcopy(b), copy.deepcopy(x))), plain(nbdime.diff(copy.deepcopy(b), copy.deepcopy(r)))
    except Exception:
        return
    if not dl or not dr:
        out.nontrivial = cx != cb or cr != cb
        return
    if same_position_insert(dl, dr):
        out.count("excluded_same_position_insert")
        return
    out.nontrivial = True
    out.count("symmetry_cases")
    try:
        m1, c1 = gmerge(b, x, r)
        m2, c2 = gmerge(b, r, x)
    except Exception as e:
        out.fail_exc("json_symmetry_completes", e)
        return
    if c1 != c2:
        out.fail("json_symmetry", "conflict_verdict_differs")
    elif not c1 and canon(m1) != canon(m2):
        out.fail("json_symmetry", "merged_differs", _first_difference(m1, m2))


# ----------------------------------------------------------------------------- notebooks

def swap(a):
    a = dict(a)
    sw = {"use-local": "use-remote", "use-remote": "use-local"}
    for k in ("merge", "input", "output"):
        a[k] = sw.get(a[k], a[k])
    return a


def run_nb(case, out):
    import nbdime
    b, x, r = case["base"], case["x"], case["r"]
    cb, cx, cr = canon(b), canon(x), canon(r)
    out.label("nb")
    for a in case["combos"]:
        for name, l_, r_, expect in (("identity", b, b, b), ("one_sided_local", x, b, x), ("one_sided_remote", b, x, x),
                                     ("agreement", x, x, x)):
            out.count("law_merges")
            m, dec, exc = M.run_merge(b, l_, r_, a)
            if exc is not None:
                out.fail_exc("nb_" + name + "_completes", exc, detail={"args": a})
                continue
            if M.conflicted(dec):
                out.fail("nb_" + name, "reports_conflict", detail={"args": a})
            elif canon(m) != canon(expect):
                out.fail("nb_" + name, "wrong_result", _first_difference(m, expect), detail={"args": a})
    out.nontrivial = cx != cb
    # symmetry
    try:
        reset_state()
        dl = plain(nbdime.diff_notebooks(to_nb(b), to_nb(x)))
        dr = plain(nbdime.diff_notebooks(to_nb(b), to_nb(r)))
    except Exception:
        return
    if not dl or not dr:
        return
    if same_position_insert(dl, dr):
        out.count("excluded_same_position_insert")
        return
    out.count("symmetry_cases")
    configs = [(a, a) for a in NEUTRAL] + [(a, swap(a)) for a in case["combos"][:2]]
    for a1, a2 in configs:
        m1, d1, e1 = M.run_merge(b, x, r, a1)
        m2, d2, e2 = M.run_merge(b, r, x, a2)
        if e1 is not None or e2 is not None:
            out.count("symmetry_merge_raised_(C03)")
            continue
        c1, c2 = M.conflicted(d1), M.conflicted(d2)
        if c1 != c2:
            out.fail("nb_symmetry", "conflict_verdict_differs", detail={"args": a1, "local_first_conflict": c1})
        elif not c1 and canon(m1) != canon(m2):
            out.fail("nb_symmetry", "merged_differs", _first_difference(m1, m2), detail={"args": a1})


def run_case(case):
    out = Outcome()
    if case["kind"] == "json":
        run_json(case, out)
    else:
        run_nb(case, out)
    out.ntkey = [case["base"], case["x"], case["r"]]
    return out


DISCRIMINATORS = {}
