"""C07  Default merge never drops or invents source text; real conflicts are flagged."""
import copy
import re

from hypothesis import strategies as st

from ..runner import Outcome, canon
from ..gen import notebooks as N
from ..gen import strategies as S
from .. import mergeutil as M

ID = "C07"
LEVEL = "exploration"
RULE = ("default strategy (nbmerge without strategy flags) x renderer {git merge-file, diff3, builtin}. (1) generated notebook triples (C03 "
        "space): survival = every rstripped non-blank source line of local or remote that is not a line of base occurs in the merged "
        "sources; provenance = every non-blank merged source line is a line of base, local or remote or matches the conflict-marker grammar "
        "as a whole line. (2) flagging cases built by construction: minor-5 base, one cell (same id on all sides) where both sides rewrite "
        "the same line(s) to different text (plus unrelated edits elsewhere): some decision must be conflicted and the merged source of "
        "that cell must contain both variants, and keeping one side of every conflict block of that source gives back that side's source "
        "(lines compared after rstrip). (3) cell-block cases: both sides insert cells at one position of a minor-5 notebook, each dropping "
        "none or the same m following cells; when the result shows the three red marker cells, the cell ids before + inside one side's "
        "part + after the block must be that side's notebook. Merges that raise are C03's subject and only counted. Non-trivial: some side added a source "
        "line (1) / rewritten line neither first nor last (2); distinct = canonical JSON of (triple, renderer).")
ASSUMPTIONS = ["lines compared after rstrip, split with str.splitlines on every side", "git runs with an empty global/system configuration (default conflict style)",
               "marker grammar: '<<<<<<< local', '||||||| base', '=======', '>>>>>>> remote', the two CELL DELETED markers and the red <span> cell markers"]
SHRINK_KEYS = ["base", "local", "remote"]
SHRINK_EVALS = 500

# labels are the three file names handed to git merge-file / diff3 (diff3 may open a block with '<<<<<<< base')
MARKER = re.compile(r'^(<{7} (local|base|remote|LOCAL CELL DELETED >{7}|REMOTE CELL DELETED >{7})|\|{7}( (local|base|remote))?|={7}'
                    r'|>{7} (local|base|remote)|<span style="color:red"><b>(<{7} local|={7}|>{7} remote)</b></span>)$')


CELL_MARK = re.compile(r'^<span style="color:red"><b>(<{7} local|={7}|>{7} remote)</b></span>$')


def valid(case):
    return all(not N.schema_errors(case[k]) for k in ("base", "local", "remote"))


def precheck(case):
    for k in ("base", "local", "remote"):
        e = N.schema_errors(case[k])
        if e:
            return "%s not schema-valid: %s" % (k, e[0])
    return None


def budget(tier):
    return 6000 if tier == "quick" else 60000


VARIANTS = ["alpha = compute(1)", "beta = compute(2)", "gamma = other_call(x, y)", "delta = 42  # local tweak", "epsilon = 'remote tweak'",
            "zeta(omega)", "return eta"]


@st.composite
def flagging(draw):
    """Same cell (same id) on all sides; both sides rewrite the same line(s) to different text, in 1-3 separate regions."""
    n = draw(st.integers(1, 4))
    base = draw(N.notebook(minor=5, min_cells=n, max_cells=n))
    i = draw(st.integers(0, n - 1))
    k = draw(st.integers(3, 9))
    lines = ["line_%d = value_%d" % (j, j) for j in range(k)]
    nreg = draw(st.sampled_from([1, 1, 2, 2, 3]))
    # region start positions, at least one untouched line between regions
    cand = draw(st.lists(st.integers(0, k - 1), min_size=1, max_size=nreg, unique=True))
    starts = []
    for p in sorted(cand):
        if not starts or p >= starts[-1] + 2:
            starts.append(p)
    final_nl = draw(st.booleans())
    ll, rl = list(lines), list(lines)
    pairs = []
    for p in starts:
        va, vb = draw(st.lists(st.sampled_from(VARIANTS), min_size=2, max_size=2, unique=True))
        va, vb = "%s  # region %d" % (va, p), "%s  # region %d" % (vb, p)
        ll[p], rl[p] = va, vb
        pairs.append([va, vb])

    def src(ls):
        s = "\n".join(ls)
        return s + "\n" if final_nl else s
    base["cells"][i]["source"] = src(lines)
    l, r = copy.deepcopy(base), copy.deepcopy(base)
    l["cells"][i]["source"] = src(ll)
    r["cells"][i]["source"] = src(rl)
    if n > 1 and draw(st.booleans()):
        o = (i + 1) % n
        l["cells"][o] = draw(N.edit_cell(base["cells"][o], 5, ["source", "metadata"]))
    interior = all(0 < p < k - 1 for p in starts)
    return {"mode": "flag", "base": base, "local": l, "remote": r, "cell_id": base["cells"][i]["id"], "pairs": pairs,
            "interior": interior, "regions": len(starts)}


@st.composite
def cellblock(draw):
    """Both sides insert new cells at one position of a minor-5 notebook and each may also drop the base cell(s) that follow - the shape
    the inline strategy renders as a block of cells between three red marker cells. Nothing else changes, so keeping one side of the
    block must give back that side's notebook."""
    n = draw(st.integers(2, 5))

    def cell(cid, src):
        return {"cell_type": "code", "metadata": {}, "execution_count": None, "outputs": [], "source": src, "id": cid}
    base_cells = [cell("c%d" % i, "".join("base_%d_line_%d = %d\n" % (i, j, j * (i + 3)) for j in range(3))) for i in range(n)]
    k = draw(st.integers(0, n))
    sides = {}
    # a side drops either nothing or the same m following cells as the other (different counts would add a one-sided deletion outside
    # the block, which both resolutions rightly share)
    m = draw(st.integers(0, min(2, n - k)))
    for side in ("L", "R"):
        ins = [cell("%snew%d" % (side, j), "".join("%s_new_%d_row_%d = load(%d)\n" % (side, j, q, q) for q in range(2 + j)))
               for j in range(draw(st.integers(1, 2)))]
        rm = draw(st.sampled_from([0, m]))
        sides[side] = base_cells[:k] + ins + base_cells[k + rm:]
    nb = lambda cells: {"nbformat": 4, "nbformat_minor": 5, "metadata": {}, "cells": copy.deepcopy(cells)}
    return {"mode": "cellblock", "base": nb(base_cells), "local": nb(sides["L"]), "remote": nb(sides["R"]), "shape": "cellblock"}


def strategy(tier):
    t = N.triple().map(lambda t: {"mode": "lines", "base": t[0], "local": t[1], "remote": t[2], "shape": t[3]})
    return st.tuples(st.one_of(t, t, t, t, flagging(), flagging(), cellblock()), st.sampled_from(S.RENDERERS)).map(lambda x: dict(x[0], renderer=x[1]))


def lines_of(nb):
    out = set()
    for c in nb.get("cells", []):
        s = c.get("source", "")
        if isinstance(s, list):
            s = "".join(s)
        for ln in s.splitlines():
            ln = ln.rstrip()
            if ln:
                out.add(ln)
    return out


def run_case(case):
    out = Outcome()
    b, l, r = case["base"], case["local"], case["remote"]
    rend = case["renderer"]
    out.label("mode_" + case["mode"], "renderer_" + rend)
    if case["mode"] == "flag":
        out.label("flag_regions_%d" % case["regions"])
    a = S.default_args(rend)
    merged, dec, exc = M.run_merge(b, l, r, a)
    out.ntkey = [b, l, r, rend]
    if exc is not None:
        out.count("merge_raised_(C03)")
        return out
    lb, ll, lr, lm = lines_of(b), lines_of(l), lines_of(r), lines_of(merged)
    added = (ll - lb) | (lr - lb)
    if case["mode"] == "lines":
        out.nontrivial = bool(added)
    elif case["mode"] == "cellblock":
        out.nontrivial = True
    else:
        out.nontrivial = bool(case["interior"])
    detail_base = {"renderer": rend}
    lost = sorted(added - lm)
    if lost:
        side = "local" if lost[0] in ll else "remote"
        fused = [m for m in lm if lost[0] in m]
        out.fail("survival", "added_line_lost", "fused onto marker" if any(_has_marker(m) for m in fused) else "absent",
                 detail=dict(detail_base, line=lost[0], side=side, fused=fused[:2],
                             side_lacks_final_newline=_lacks_final_newline(case, lost[0])))
    alien = sorted(x for x in lm if x not in lb and x not in ll and x not in lr and not MARKER.match(x))
    if alien:
        out.fail("provenance", "fabricated_line", "contains marker text" if _has_marker(alien[0]) else "no marker text",
                 detail=dict(detail_base, line=alien[0], side_lacks_final_newline=_lacks_final_newline(case, None)))
    if case["mode"] == "cellblock":
        ids = [c.get("id") for c in merged["cells"]]
        marks = [i for i, c in enumerate(merged["cells"]) if c["cell_type"] == "markdown" and CELL_MARK.match(c["source"] or "")]
        kinds = [CELL_MARK.match(merged["cells"][i]["source"]).group(1) for i in marks]
        if kinds == ["<<<<<<< local", "=======", ">>>>>>> remote"]:
            out.count("cell_blocks_checked")
            i0, i1, i2 = marks
            for side, part in (("local", ids[i0 + 1:i1]), ("remote", ids[i1 + 1:i2])):
                got = ids[:i0] + part + ids[i2 + 1:]
                want = [c["id"] for c in case[side]["cells"]]
                if got != want:
                    out.fail("side_reconstructible", "%s_cells_not_reconstructible_from_cell_block" % side, detail=dict(detail_base, got=got, want=want))
                    break
        else:
            out.count("cellblock_cases_rendered_otherwise")
        return out
    if case["mode"] == "flag":
        if not M.conflicted(dec):
            out.fail("flagging", "conflict_not_reported", detail=detail_base)
        cell = [c for c in merged["cells"] if c.get("id") == case["cell_id"]]
        src = "\n".join(c["source"] for c in cell)
        if not cell or any(va not in src or vb not in src for va, vb in case["pairs"]):
            out.fail("flagging", "variants_not_both_presented", detail=detail_base)
        elif len(cell) == 1:
            # taking one side of every conflict block must give back that side's source (nothing dropped, nothing invented, nothing twice)
            for side in ("local", "remote"):
                want = [c for c in case[side]["cells"] if c.get("id") == case["cell_id"]]
                got = resolve_side(cell[0]["source"], side)
                if want and got is not None:
                    out.count("sides_reconstructed_from_marked_source")
                    if [x.rstrip() for x in got.splitlines()] != [x.rstrip() for x in want[0]["source"].splitlines()]:
                        out.fail("side_reconstructible", "%s_not_reconstructible_from_marked_source" % side, "renderer " + rend, detail=dict(detail_base, got=got[-200:], want=want[0]["source"][-200:]))
                        break
    return out


def resolve_side(text, side):
    """The text one gets by keeping `side` (local / remote) of every conflict block; None if the marker structure is not well-formed."""
    res, state = [], "common"
    for line in text.splitlines(True):
        bare = line.rstrip("\r\n")
        if bare.startswith("<<<<<<< "):
            if state != "common":
                return None
            state = "local"
        elif bare.startswith("|||||||"):
            if state != "local":
                return None
            state = "base"
        elif bare == "=======" and state in ("local", "base"):
            state = "remote"
        elif bare.startswith(">>>>>>> ") and state == "remote":
            state = "common"
        elif state == "common" or state == side:
            res.append(line)
    return "".join(res) if state == "common" else None


def _has_marker(line):
    return any(m in line for m in ("<<<<<<<", "|||||||", "=======", ">>>>>>>"))


def _lacks_final_newline(case, line):
    """Some source of local/remote/base that carries `line` (or any, if None) does not end with a newline."""
    for k in ("base", "local", "remote"):
        for c in case[k]["cells"]:
            s = c["source"]
            if s and not s.endswith("\n") and (line is None or line in s):
                return True
    return False


def _d7(case, f):
    d = f.get("detail") or {}
    return d.get("renderer") == "diff3" and d.get("side_lacks_final_newline") and (
        f["msg"] in ("fused onto marker", "contains marker text"))


DISCRIMINATORS = {"diff3_and_source_lacks_final_newline_and_marker_fused": _d7}
