"""C20  Web API agrees with the library and writes only where told at start-up."""
import asyncio
import copy
import hashlib
import io
import json
import os
import shutil
import tempfile

from hypothesis import strategies as st

from ..runner import Outcome, canon
from ..gen import notebooks as N
from ..nbd import plain, reset_state, to_nb, quiet
from ..oracles.refpatch import refpatch, RefPatchError

ID = "C20"
LEVEL = "exploration"
RULE = ("histories: a server started by the real nbdimeserver.init_app on a loopback port in one of the modes {plain, diff tool with file "
        "names, diff tool with file-like blobs, merge tool with output file, in place (output = local), into a directory that does not exist, merge tool without output file} x "
        "closable or not x base URL '/', '/pre/x/' or '/user/j.doe+lab/', over 3 generated notebook files plus a non-notebook and a broken .ipynb file; then 3-12 requests: valid "
        "diff/merge/store/closetool, malformed JSON, missing keys, non-notebook / non-existent / broken files, wrong prefix or unknown path, "
        "GET on API endpoints, store bodies carrying extra 'path' / 'outputfilename' / '../' fields or a non-notebook 'merged', store bodies whose notebook holds a lone surrogate; another program rewriting a served "
        "notebook between two requests. Oracles: diff "
        "answer = library diff and the reference patcher turns resp.base into the remote notebook; merge answer = "
        "decide_notebook_merge under the web tool's arguments; store writes exactly the submitted notebook to cwd/outputfilename fixed at "
        "start-up, only on 2xx, 400 and nothing written when none was fixed; shutdown requested iff closable and the close request was "
        "accepted; every malformed request gets status >= 400, leaves the hash of every file and the set of directories under the temp root unchanged and a repeated "
        "valid request afterwards gets the same body as the first time. Non-trivial: >=1 malformed and >=2 valid requests incl. a store; "
        "distinct = canonical JSON of the program.")
ASSUMPTIONS = ["jupyter_server / jinja2 stubs (vp/../stubs) so the real handlers import", "IOLoop.stop requested by the close handler is intercepted by the "
               "harness (recorded as 'shutdown requested') so that the request sequence can continue", "requests issued with tornado's AsyncHTTPClient in the same event loop"]
SHRINK_KEYS = ["requests"]
SHRINK_EVALS = 60

MODES = ["plain", "difftool_names", "difftool_blobs", "mergetool_out", "mergetool_out", "mergetool_noout", "mergetool_inplace", "mergetool_out_newdir"]


def budget(tier):
    return 1200 if tier == "quick" else 12000


def valid(case):
    # (keeps the shrinker inside the request grammar: the "valid" kinds name served notebooks)
    for rq in case["requests"]:
        if not isinstance(rq, list) or not rq:
            return False
        if rq[0] in ("diff", "merge") and not (isinstance(rq[1], dict) and all(v in FILES for v in rq[1].values())
                                                and set(rq[1]) == ({"base", "remote"} if rq[0] == "diff" else {"base", "local", "remote"})):
            return False
        if rq[0] == "rewrite" and not (len(rq) == 3 and rq[1] in FILES and rq[2] in (0, 1, 2)):
            return False
        if rq[0] in ("store", "store_surrogate") and not (isinstance(rq[1], dict) and rq[1].get("merged") in (0, 1, 2)):
            return False
    return len(case["requests"]) >= 1 and len(case["notebooks"]) == 3


def precheck(case):
    for i, nb in enumerate(case["notebooks"]):
        e = N.schema_errors(nb)
        if e:
            return "notebooks[%d] not schema-valid: %s" % (i, e[0])
    return None


FILES = ["a.ipynb", "b.ipynb", "c.ipynb"]
BAD_FILES = ["notes.txt", "broken.ipynb", "missing.ipynb", "/etc/passwd", "served/a.ipynb", "empty.ipynb"]


@st.composite
def program(draw):
    base = draw(N.notebook(max_cells=3))
    nbs = [base, draw(N.edit_notebook(base, "L", max_steps=3, min_steps=1)), draw(N.edit_notebook(base, "R", max_steps=3, min_steps=1))]
    mode = draw(st.sampled_from(MODES))
    reqs = []
    for _ in range(draw(st.integers(3, 12))):
        k = draw(st.sampled_from(["diff", "diff", "merge", "merge", "store", "store", "close", "bad_json", "missing_key", "bad_file", "unknown_path",
                                  "get_api", "store_extra", "store_bad_merged", "store_unencodable", "wrong_prefix", "rewrite"]))
        if k == "diff":
            reqs.append(["diff", {"base": draw(st.sampled_from(FILES)), "remote": draw(st.sampled_from(FILES))}])
        elif k == "merge":
            reqs.append(["merge", {"base": draw(st.sampled_from(FILES)), "local": draw(st.sampled_from(FILES)), "remote": draw(st.sampled_from(FILES))}])
        elif k == "store":
            reqs.append(["store", {"merged": draw(st.integers(0, 2))}])
        elif k == "store_extra":
            extra = draw(st.sampled_from([{"path": "../evil.ipynb"}, {"outputfilename": "evil.ipynb"}, {"path": "/tmp/evil.ipynb", "fn": "x"},
                                          {"outputfilename": "../outside.ipynb"}]))
            reqs.append(["store", dict({"merged": draw(st.integers(0, 2))}, **extra)])
        elif k == "rewrite":
            # another program rewrites one of the served notebooks between two requests
            reqs.append(["rewrite", draw(st.sampled_from(FILES)), draw(st.integers(0, 2))])
        elif k == "store_unencodable":
            # well-formed JSON ("\\ud800" escape) whose notebook holds a lone surrogate: it cannot be written as UTF-8
            reqs.append(["store_surrogate", {"merged": draw(st.integers(0, 2))}, draw(st.sampled_from(["source", "metadata"]))])
        elif k == "store_bad_merged":
            reqs.append(["store_raw", {"merged": draw(st.sampled_from([5, "x", None, [], [1, 2], {}, {"cells": [], "metadata": {}},
                                                                       {"nbformat": "4", "cells": "none"}]))}])
        elif k == "close":
            reqs.append(["close", draw(st.sampled_from([{"exitCode": 0}, {"exitCode": 3}, {"exitCode": "2"}, {}, None, [1], "str",
                                                        {"exitCode": None}, {"exitCode": 2.5}, {"exitCode": [1]}, {"exitCode": True},
                                                        {"exitCode": 256}, {"exitCode": -256}, {"exitCode": 2 ** 31}, {"exitCode": "512"}]))])
        elif k == "bad_json":
            reqs.append(["raw", draw(st.sampled_from(["diff", "merge", "store", "closetool"])), draw(st.sampled_from(["{not json", "", "[1,2", "ÿþ"]))])
        elif k == "missing_key":
            reqs.append(["json", draw(st.sampled_from(["diff", "merge", "store"])), draw(st.sampled_from([{}, {"base": "a.ipynb"}, {"remote": "b.ipynb"},
                                                                                                      {"base": 5, "remote": None}, [1], "s"]))])
        elif k == "bad_file":
            reqs.append(["json", draw(st.sampled_from(["diff", "merge"])),
                         {"base": draw(st.sampled_from(BAD_FILES)), "local": "a.ipynb", "remote": draw(st.sampled_from(FILES + BAD_FILES))}])
        elif k == "unknown_path":
            reqs.append(["path", draw(st.sampled_from(["/api/unknown", "/api/diff/extra", "/apix/diff", "/api/store/../diff"])), {"base": "a.ipynb", "remote": "b.ipynb"}])
        elif k == "wrong_prefix":
            reqs.append(["noprefix", draw(st.sampled_from(["diff", "merge", "store", "closetool"])), {"base": "a.ipynb", "local": "a.ipynb", "remote": "b.ipynb"}])
        else:
            reqs.append(["get", draw(st.sampled_from(["diff", "merge", "store", "closetool"]))])
    return {"notebooks": nbs, "mode": mode, "closable": draw(st.booleans()), "base_url": draw(st.sampled_from(["/", "/", "/pre/x/", "/user/j.doe+lab/"])), "requests": reqs}


def strategy(tier):
    return program()


class NamedBlob(io.StringIO):
    name = ""


def tree_hash(root):
    h = {}
    for d, ds, fs in os.walk(root):
        for x in ds:
            h[os.path.relpath(os.path.join(d, x), root) + "/"] = "dir"
        for f in fs:
            p = os.path.join(d, f)
            with open(p, "rb") as fh:
                h[os.path.relpath(p, root)] = hashlib.sha1(fh.read()).hexdigest()
    return h


def run_case(case):
    import logging
    import nbformat
    out = Outcome()
    reset_state()
    for name in ("tornado.application", "tornado.access", "tornado.general", "stub"):
        logging.getLogger(name).setLevel(logging.CRITICAL)
        logging.getLogger(name).propagate = False
    top = tempfile.mkdtemp(prefix="vp_c20_")
    cwd = os.path.join(top, "served")
    os.makedirs(cwd)
    saved_cwd = os.getcwd()
    try:
        for name, nb in zip(FILES, case["notebooks"]):
            nbformat.write(to_nb(nb), os.path.join(cwd, name))
        with open(os.path.join(cwd, "notes.txt"), "w") as f:
            f.write("not a notebook\n")
        with open(os.path.join(cwd, "broken.ipynb"), "w") as f:
            f.write('{"cells": [')
        open(os.path.join(cwd, "empty.ipynb"), "w").close()      # zero bytes: not a notebook (only git's merge tool may supply one)
        nbformat.write(to_nb(case["notebooks"][0]), os.path.join(top, "outside.ipynb"))
        with open(os.path.join(cwd, "merged_out.ipynb"), "w") as f:
            f.write("PREVIOUS CONTENT OF THE OUTPUT FILE\n")
        os.chdir(top)      # the server must use its configured cwd, not the process cwd
        asyncio.run(_session(case, out, top, cwd))
    finally:
        os.chdir(saved_cwd)
        shutil.rmtree(top, ignore_errors=True)
    out.ntkey = case
    return out


async def _session(case, out, top, cwd):
    import nbformat
    import nbdime
    from nbdime.webapp import nbdimeserver as srv
    from nbdime.merging.notebooks import decide_notebook_merge
    from tornado.httpclient import AsyncHTTPClient, HTTPRequest
    from ..gen import strategies as S

    mode = case["mode"]
    params = {"cwd": cwd, "base_url": case["base_url"], "port": 0}
    outfn = None
    blobs = None
    if mode == "difftool_names":
        params["difftool_args"] = {"base": "a.ipynb", "remote": "b.ipynb"}
    elif mode == "difftool_blobs":
        blobs = {}
        for k, fn in (("base", "a.ipynb"), ("remote", "b.ipynb")):
            with open(os.path.join(cwd, fn), encoding="utf8") as f:
                b = NamedBlob(f.read())
            b.name = "%s (blob)" % fn
            blobs[k] = b
        params["difftool_args"] = blobs
    elif mode.startswith("mergetool"):
        params["mergetool_args"] = {"base": "a.ipynb", "local": "b.ipynb", "remote": "c.ipynb"}
        if mode == "mergetool_out":
            outfn = "merged_out.ipynb"
        elif mode == "mergetool_inplace":
            outfn = "b.ipynb"                          # `nbmergetool base mine theirs mine`: the result replaces local
        elif mode == "mergetool_out_newdir":
            outfn = "results/merged_out.ipynb"         # a directory that does not exist (yet)
        if outfn:
            params["outputfilename"] = outfn
    shutdown = {"requested": 0}

    class FakeLoop:
        def stop(self_inner):
            shutdown["requested"] += 1
    real_ioloop = srv.ioloop
    ports = []

    class IOLoopProxy:
        """Stands in for the name `ioloop` inside nbdimeserver only: IOLoop.current().stop() is recorded, not executed."""
        class IOLoop:
            current = staticmethod(lambda *a, **k: FakeLoop())

        def __getattr__(self_inner, name):
            return getattr(real_ioloop, name)
    srv.ioloop = IOLoopProxy()
    try:
        app, server = srv.init_app(on_port=ports.append, closable=case["closable"], **params)
    except BaseException:
        srv.ioloop = real_ioloop
        raise
    prefix = case["base_url"].rstrip("/")
    client = AsyncHTTPClient(force_instance=True)

    async def send(path, body, method="POST", with_prefix=True):
        url = "http://127.0.0.1:%d%s%s" % (ports[0], prefix if with_prefix else "", path)
        if isinstance(body, (dict, list, int)) or body is None and method == "POST":
            data = json.dumps(body)
        else:
            data = body
        req = HTTPRequest(url, method=method, body=(data.encode("utf8", "surrogatepass") if isinstance(data, str) else data) if method == "POST" else None,
                          headers={"Content-Type": "application/json"}, request_timeout=30)
        r = await client.fetch(req, raise_error=False)
        quiet()          # the merge handler builds an argparse parser whose log-level action re-enables INFO logging
        return r.code, r.body

    class ServedFileUnreadable(Exception):
        pass

    def lib_nb(name):
        try:
            return nbformat.read(os.path.join(cwd, name), as_version=4)
        except Exception as e:
            # the oracle itself cannot read a served notebook any more: an earlier request of this program damaged it
            raise ServedFileUnreadable("%s: %s" % (name, e))

    first_answers = {}
    n_valid = n_bad = n_store = 0
    had_error = False
    try:
      try:
        for ri, rq in enumerate(case["requests"]):
            kind = rq[0]
            before = tree_hash(top)
            sd_before = shutdown["requested"]
            detail = {"request_index": ri, "request": rq if kind != "store" else [kind, {k: v for k, v in rq[1].items() if k != "merged"}], "mode": mode,
                      "closable": case["closable"], "base_url": case["base_url"]}
            out.count("requests")
            out.count("req_" + kind)
            malformed = False
            if kind == "rewrite":
                if mode != "difftool_blobs":           # (blob sessions hold their contents from start-up)
                    nbformat.write(to_nb(case["notebooks"][rq[2]]), os.path.join(cwd, rq[1]))
                    first_answers.clear()
                    out.count("served_file_rewritten_between_requests")
                continue
            if kind == "diff":
                body = rq[1]
                code, data = await send("/api/diff", body)
                tool = mode.startswith("difftool")
                bname, rname = ("a.ipynb", "b.ipynb") if tool else (body["base"], body["remote"])
                n_valid += 1
                if code != 200:
                    out.fail("diff_endpoint", "valid_request_refused", "status %d" % code, detail=detail)
                else:
                    resp = json.loads(data)
                    want_remote = plain(lib_nb(rname))
                    try:
                        got = refpatch(resp["base"], resp["diff"])
                        if canon(got) != canon(want_remote):
                            out.fail("diff_endpoint", "base_plus_diff_is_not_remote", detail=detail)
                    except RefPatchError as e:
                        out.fail("diff_endpoint", "diff_not_applicable_to_returned_base", str(e), detail=detail)
                    reset_state()
                    lib = plain(nbdime.diff_notebooks(lib_nb(bname), lib_nb(rname)))
                    if canon(resp["diff"]) != canon(lib) or canon(resp["base"]) != canon(plain(lib_nb(bname))):
                        out.fail("diff_endpoint", "differs_from_library", detail=detail)
                    key = "diff:%s:%s" % (bname, rname)
                    if key in first_answers and first_answers[key] != data:
                        out.fail("later_requests_answered_as_first", "diff_answer_changed", "after error" if had_error else "no error before", detail=detail)
                    first_answers.setdefault(key, data)
            elif kind == "merge":
                body = rq[1]
                code, data = await send("/api/merge", body)
                tool = mode.startswith("mergetool")
                names = ("a.ipynb", "b.ipynb", "c.ipynb") if tool else (body["base"], body["local"], body["remote"])
                n_valid += 1
                if code != 200:
                    out.fail("merge_endpoint", "valid_request_refused", "status %d" % code, detail=detail)
                else:
                    resp = json.loads(data)
                    reset_state()
                    args = S.build_args({"merge": "mergetool", "input": None, "output": None, "transients": True})
                    lib = json.loads(json.dumps(decide_notebook_merge(*[lib_nb(n) for n in names], args=args)))
                    if canon(resp["merge_decisions"]) != canon(lib) or canon(resp["base"]) != canon(plain(lib_nb(names[0]))):
                        out.fail("merge_endpoint", "differs_from_library", detail=detail)
                    key = "merge:" + ":".join(names)
                    if key in first_answers and first_answers[key] != data:
                        out.fail("later_requests_answered_as_first", "merge_answer_changed", "after error" if had_error else "no error before", detail=detail)
                    first_answers.setdefault(key, data)
            elif kind == "store_surrogate":
                import copy as _copy
                nbx = _copy.deepcopy(case["notebooks"][rq[1]["merged"]])
                if rq[2] == "source" and nbx["cells"]:
                    nbx["cells"][0]["source"] += "x = '\ud800'\n"
                else:
                    nbx["metadata"]["title"] = "lone \udc00 surrogate"
                code, data = await send("/api/store", {"merged": nbx})
                after = tree_hash(top)
                changed = sorted(k for k in set(before) | set(after) if before.get(k) != after.get(k))
                out.count("store_requests_with_unencodable_text")
                if code >= 400:
                    # refused: then nothing on disk may have changed
                    malformed = True
                    if changed:
                        out.fail("malformed_request", "changed_disk", "store refused (unencodable text) but: " + changed[0], detail=detail)
                elif [c for c in changed if c != (os.path.join("served", outfn) if outfn else None)]:
                    out.fail("store_endpoint", "wrote_outside_the_output_file", changed[0], detail=detail)
            elif kind in ("store", "store_raw"):
                body = dict(rq[1])
                good = kind == "store"
                if good:
                    body["merged"] = case["notebooks"][body["merged"]]
                code, data = await send("/api/store", body)
                after = tree_hash(top)
                changed = sorted(k for k in set(before) | set(after) if before.get(k) != after.get(k))
                target = os.path.join("served", outfn) if outfn else None
                if good:
                    n_store += 1
                if not outfn:
                    if code != 400:
                        out.fail("store_endpoint", "store_not_refused_without_output_file", "status %d" % code, detail=detail)
                    if changed:
                        out.fail("store_endpoint", "wrote_without_output_file", changed[0], detail=detail)
                else:
                    other = [c for c in changed if c != target]
                    if other:
                        out.fail("store_endpoint", "wrote_outside_the_output_file", other[0], detail=detail)
                    if good:
                        n_valid += 1
                        if 200 <= code < 300:
                            first_answers.clear()          # the output file may be one of the session's inputs
                        if not (200 <= code < 300) and mode == "mergetool_out_newdir" and not os.path.isdir(os.path.join(cwd, "results")):
                            # the output directory does not exist: a refusal is acceptable, but then nothing may change (directories included)
                            out.count("store_refused_(output_directory_missing)")
                            if changed:
                                out.fail("malformed_request", "changed_disk", "store refused (no output directory) but: " + changed[0], detail=detail)
                        elif not (200 <= code < 300):
                            out.fail("store_endpoint", "valid_store_refused", "status %d" % code, detail=detail)
                        else:
                            want = plain(nbformat.reads(json.dumps(body["merged"]), as_version=4))
                            try:
                                written = plain(nbformat.read(os.path.join(top, target), as_version=4))
                            except Exception:
                                written = None
                            if written is None or canon(written) != canon(want):
                                out.fail("store_endpoint", "stored_file_differs_from_submitted_notebook" if written is not None
                                         else "output_file_does_not_hold_the_submitted_notebook", detail=detail)
                    else:
                        malformed = True
                        if code < 400:
                            out.fail("malformed_request", "accepted", "store status %d" % code, detail=detail)
                        if changed:
                            out.fail("malformed_request", "changed_disk", "store: " + changed[0], detail=detail)
            elif kind == "close":
                code, data = await send("/api/closetool", rq[1])
                n_valid += 1
                accepted = 200 <= code < 300
                requested = shutdown["requested"] > sd_before
                # a JSON object, or a body that is not JSON at all (the handler documents a fallback exit code for that)
                wellformed_body = isinstance(rq[1], (dict, str))
                if isinstance(rq[1], dict) and "exitCode" in rq[1]:
                    # an exit code is an integer (the page sends a number; a numeric string is accepted too)
                    ec = rq[1]["exitCode"]
                    wellformed_body = (isinstance(ec, int) and not isinstance(ec, bool)) or (isinstance(ec, str) and ec.lstrip("-").isdigit())
                    # ... that a process can exit with (256 would wrap to 0 = success)
                    wellformed_body = wellformed_body and 0 <= int(ec) <= 255
                if not wellformed_body:
                    # a close body that is not a JSON object is malformed: error status, no shutdown
                    if accepted or requested:
                        out.fail("malformed_request", "close_with_malformed_body_" + ("shut_down_session" if requested else "accepted"),
                                 "status %d" % code, detail=detail)
                    n_valid -= 1
                elif not case["closable"]:
                    if accepted or requested:
                        out.fail("closetool", "non_closable_session_honoured_shutdown", "status %d" % code, detail=detail)
                else:
                    if requested and not accepted:
                        out.fail("closetool", "refused_close_request_still_shut_down", "status %d" % code, detail=detail)
                    if accepted and not requested:
                        out.fail("closetool", "accepted_close_request_did_not_shut_down", detail=detail)
                    if wellformed_body and not accepted:
                        out.fail("closetool", "closable_session_refused_valid_close", "status %d" % code, detail=detail)
            else:
                malformed = True
                if kind == "raw":
                    code, data = await send("/api/" + rq[1], rq[2])
                elif kind == "json":
                    code, data = await send("/api/" + rq[1], rq[2])
                elif kind == "path":
                    code, data = await send(rq[1], rq[2])
                elif kind == "noprefix":
                    if case["base_url"] == "/":
                        code, data = await send("/wrong/prefix/api/" + rq[1], rq[2])
                    else:
                        code, data = await send("/api/" + rq[1], rq[2], with_prefix=False)
                else:
                    code, data = await send("/api/" + rq[1], None, method="GET")
                # some 'malformed' bodies are in fact acceptable to the addressed endpoint in tool modes (arguments fixed at start-up)
                acceptable = (kind in ("json", "raw") and ((rq[1] == "diff" and mode.startswith("difftool")) or (rq[1] == "merge" and mode.startswith("mergetool")))) \
                    or (kind == "raw" and rq[1] == "closetool") or (kind == "json" and rq[1] == "store")
                if acceptable:
                    malformed = False
                else:
                    if code < 400:
                        out.fail("malformed_request", "accepted", "%s %s status %d" % (kind, rq[1] if kind != "path" else "path", code), detail=detail)
                    if shutdown["requested"] > sd_before:
                        out.fail("malformed_request", "shut_down_session", kind, detail=detail)
                after = tree_hash(top)
                if before != after and not (kind == "json" and rq[1] == "store"):
                    ch = sorted(k for k in set(before) | set(after) if before.get(k) != after.get(k))
                    out.fail("malformed_request", "changed_disk", "%s: %s" % (kind, ch[0]), detail=detail)
            if malformed:
                n_bad += 1
                had_error = True
      except ServedFileUnreadable as e:
        if not out.failures:
            raise RuntimeError("a served notebook became unreadable although no request was found at fault: %s" % e)
        out.count("programs_cut_short_(a_served_file_was_damaged_by_a_reported_request)")
    finally:
        srv.ioloop = real_ioloop
        server.stop()
        client.close()
        if blobs:
            for b in blobs.values():
                b.close()
    out.nontrivial = n_bad >= 1 and n_valid >= 2 and n_store >= 1


DISCRIMINATORS = {}
