"""C01  Notebook diff followed by patch reproduces the target notebook exactly."""
import contextlib
import copy
import io
import json
import os
import shutil
import sys
import tempfile

from hypothesis import strategies as st

from ..runner import Outcome, canon
from ..gen import notebooks as N
from ..oracles.refpatch import refpatch, RefPatchError
from ..nbd import plain, reset_state, to_nb
from .c02 import _first_difference

ID = "C01"
LEVEL = "exploration"
RULE = ("pairs (A,B) of schema-valid v4 notebooks (minor 0-5, ids iff minor 5, code/markdown/raw cells, all four output "
        "types, mime bundles with text/base64/JSON payloads, attachments, nested metadata, mixed line endings); B is an edit "
        "script of A (insert/delete/move/duplicate/edit cells, outputs, metadata, attachments, cell type, minor) in 90% and an "
        "unrelated notebook in 10%. Oracles: canon(patch_notebook(A, diff_notebooks(A,B)))==canon(B); the independent reference "
        "patcher applied to the JSON form of the diff gives canon(B); diff==[] iff canon(A)==canon(B); no exception; for every "
        "4th case the file interface `nbdiff --out d a b` + `nbpatch -o out a d` re-read with nbformat equals B re-read. "
        "Non-trivial: A!=B and the diff contains a patch op below /cells/* (the heuristic aligner matched a cell); distinct = "
        "distinct canonical JSON of (A,B).")
ASSUMPTIONS = ["reference patcher written from docs/source/diffing.rst", "notebooks generated from the nbformat v4.<minor> JSON schemas; "
               "every generated notebook is validated (non-mutating jsonschema) and a failure there is a harness error",
               "file clause runs the real nbdiffapp.main / nbpatchapp.main in-process with argv[0]=nbdiff/nbpatch and empty config dirs"]
SHRINK_KEYS = ["a", "b"]


def valid(case):
    return not N.schema_errors(case["a"], unique_ids=False) and not N.schema_errors(case["b"], unique_ids=False)


def precheck(case):
    for k in ("a", "b"):
        e = N.schema_errors(case[k], unique_ids=False)
        if e:
            return "%s is not schema-valid: %s" % (k, e[0])
    return None


def budget(tier):
    return 4000 if tier == "quick" else 60000


def strategy(tier):
    N.enable_long_texts(tier == "thorough")
    mc = 5 if tier == "quick" else 8
    return st.tuples(N.pair(max_cells=mc, dup_ids=True), st.integers(0, 3), st.sampled_from(range(12))).map(
        lambda t: {"a": t[0][0], "b": t[0][1], "rel": t[0][2], "file": t[1] == 0, "c_locale": t[1] == 0 and t[2] == 5})


def has_cell_patch(d):
    for e in d:
        if e.get("key") == "cells" and e.get("op") == "patch":
            return any(x.get("op") == "patch" for x in e["diff"])
    return False


_tmp = {}


def _workdir():
    if "d" not in _tmp:
        d = tempfile.mkdtemp(prefix="vp_c01_")
        os.makedirs(os.path.join(d, "cfg"))
        os.makedirs(os.path.join(d, "cwd"))
        _tmp["d"] = d
        import atexit
        atexit.register(shutil.rmtree, d, True)
    return _tmp["d"]


@contextlib.contextmanager
def cli_env(prog):
    """Run an nbdime console entry point in-process: argv[0], cwd, config dirs, std streams restored afterwards."""
    d = _workdir()
    saved = (sys.argv[:], os.getcwd(), sys.stdout, sys.stderr, dict(os.environ))
    os.environ["JUPYTER_CONFIG_DIR"] = os.path.join(d, "cfg")
    os.environ["JUPYTER_CONFIG_PATH"] = os.path.join(d, "cfg")
    os.environ["JUPYTER_NO_CONFIG"] = ""
    os.chdir(os.path.join(d, "cwd"))
    sys.argv[:] = [prog]
    buf = io.StringIO()
    try:
        sys.stdout = buf
        sys.stderr = io.StringIO()
        yield buf
    finally:
        sys.argv[:], cwd, sys.stdout, sys.stderr, env = saved
        os.chdir(cwd)
        os.environ.clear()
        os.environ.update(env)


def _real_command(prog, module, argv, d):
    """The console entry point in a new interpreter whose preferred encoding is not UTF-8 (LC_ALL=C, UTF-8 mode and locale coercion off:
    what `open(path, "w")` picks up by default on Windows or under a C locale)."""
    import subprocess
    env = {k: v for k, v in os.environ.items() if not k.startswith(("LC_", "LANG", "PYTHONIOENCODING", "PYTHONUTF8"))}
    env.update(LC_ALL="C", LANG="C", PYTHONUTF8="0", PYTHONCOERCECLOCALE="0", JUPYTER_CONFIG_DIR=os.path.join(d, "cfg"),
               JUPYTER_CONFIG_PATH=os.path.join(d, "cfg"))
    code = "import sys; sys.argv[0] = %r; from nbdime.%s import main; sys.exit(main(sys.argv[1:]))" % (prog, module)
    p = subprocess.run([sys.executable, "-c", code] + argv, env=env, cwd=os.path.join(d, "cwd"), stdout=subprocess.PIPE, stderr=subprocess.PIPE, timeout=300)
    return p.returncode, p.stderr.decode("utf8", "replace")[-300:]


def file_roundtrip(a, b, out, c_locale=False):
    import nbformat
    from nbdime import nbdiffapp, nbpatchapp
    d = _workdir()
    fa, fb, fd, fo = (os.path.join(d, n) for n in ("a.ipynb", "b.ipynb", "d.json", "out.ipynb"))
    for fn in (fd, fo):
        if os.path.exists(fn):
            os.remove(fn)
    nbformat.write(to_nb(a), fa)
    nbformat.write(to_nb(b), fb)
    if c_locale:
        out.count("file_interface_runs_under_a_non_utf8_locale")
        rc, err = _real_command("nbdiff", "nbdiffapp", ["--out", fd, fa, fb], d)
        if rc != 0:
            out.fail("file_interface", "nbdiff_exit_status", "exit %r under a non-UTF-8 locale" % (rc,), detail={"stderr": err})
            return
        rc, err = _real_command("nbpatch", "nbpatchapp", ["-o", fo, fa, fd], d)
        if rc != 0:
            out.fail("file_interface", "nbpatch_exit_status", "exit %r under a non-UTF-8 locale" % (rc,), detail={"stderr": err})
            return
        got = plain(nbformat.read(fo, as_version=4))
        want = plain(nbformat.read(fb, as_version=4))
        if canon(got) != canon(want):
            out.fail("file_interface", "rebuilt_file_differs_from_target", "non-UTF-8 locale: " + _first_difference(got, want))
        return
    try:
        with cli_env("nbdiff"):
            rc = nbdiffapp.main(["--out", fd, fa, fb])
        if rc != 0:
            out.fail("file_interface", "nbdiff_exit_status", "exit %r" % (rc,))
            return
        with cli_env("nbpatch"):
            rc = nbpatchapp.main(["-o", fo, fa, fd])
        if rc != 0:
            out.fail("file_interface", "nbpatch_exit_status", "exit %r" % (rc,))
            return
    except BaseException as e:
        if isinstance(e, KeyboardInterrupt):
            raise
        out.fail_exc("file_interface", e)
        return
    got = plain(nbformat.read(fo, as_version=4))
    want = plain(nbformat.read(fb, as_version=4))
    if canon(got) != canon(want):
        out.fail("file_interface", "rebuilt_file_differs_from_target", _first_difference(got, want))


def run_case(case):
    import nbdime
    out = Outcome()
    a, b = case["a"], case["b"]
    reset_state()
    ca, cb = canon(a), canon(b)
    out.label("rel_" + case.get("rel", "?"), "minorA_%d" % a["nbformat_minor"])
    if a["nbformat_minor"] != b["nbformat_minor"]:
        out.label("minor_changed")
    na, nb_ = to_nb(a), to_nb(b)
    try:
        d = nbdime.diff_notebooks(na, nb_)
    except Exception as e:
        out.fail_exc("no_exception_diff", e)
        return out
    pd = plain(d)
    out.nontrivial = ca != cb and has_cell_patch(pd)
    if (not pd) != (ca == cb):
        out.fail("empty_diff_iff_identical", "empty_diff_for_different_notebooks" if not pd else "nonempty_diff_for_identical",
                 _first_difference(a, b))
        if not pd:
            return out
    try:
        p = plain(nbdime.patch_notebook(to_nb(a), d))
        if canon(p) != cb:
            out.fail("roundtrip", "patched_differs_from_target", _first_difference(p, b))
    except Exception as e:
        out.fail_exc("no_exception_patch", e)
    try:
        r = refpatch(a, json.loads(json.dumps(pd)))
        if canon(r) != cb:
            out.fail("reference_patcher", "refpatch_differs_from_target", _first_difference(r, b))
    except RefPatchError as e:
        out.fail("reference_patcher", "refpatch_rejects_diff", str(e))
    dup = N.has_duplicate_ids(a) or N.has_duplicate_ids(b)
    if dup:
        out.label("duplicate_ids")     # schema-valid, but nbformat.write/read re-ids duplicates randomly: no file clause
    if case.get("file") and not dup:
        out.label("file_interface")
        file_roundtrip(a, b, out, c_locale=bool(case.get("c_locale")))
    return out
