"""C06  Changes to different cells merge cleanly into exactly both sets of changes."""
import copy
import itertools

from hypothesis import strategies as st

from ..runner import Outcome, canon
from ..gen import notebooks as N
from ..gen import strategies as S
from .. import mergeutil as M
from ..nbd import plain, reset_state, to_nb
from .c02 import _first_difference

ID = "C06"
LEVEL = "exploration"
RULE = ("by-construction cases: base notebook with 2-7 cells (minor 5 with unique ids, or id-less with pairwise dissimilar sources so the "
        "aligner is unambiguous - except that one notebook in eight holds two adjacent copy-pasted cells differing in one line, one twin deleted "
        "by one side and the other twin changed by the other side); every cell gets an owner L/R/none; the owner applies one of edit-source / edit-outputs / edit-metadata / "
        "set-execution-count / delete / change only the JSON type of a metadata value / edit a line below a form feed, lone CR or unicode line "
        "separator / change the summary line of a stream output full of CR progress bars; each side may insert new cells only into gaps whose neighbouring cells the other side did not touch "
        "and where the other side does not insert; sides may change different notebook-metadata keys. The expected merge E is built in the "
        "same draw. Oracle: no decision conflicted and canon(merged)==canon(E), under the default strategy and one sampled configuration. "
        "Cases are unambiguous by construction; whether nbdime's own diff base->side touches only cells that side owns is measured "
        "(diff_touches_unowned_cells, empty on the unchanged tree) but never excuses a case. One case in eight is a long notebook / list "
        "(16-32 items) where one side inserts a block of 8-12 and deletes a block of 8-12 elsewhere while the other edits in between. Generic analogue through decide_merge+apply_decisions, enumerated completely: lists of n<=5 (thorough 7) "
        "distinct items with every owner assignment whose L- and R-owned positions are separated by an untouched item and every action "
        "replace/delete/insert-before, and objects over 4 keys with every disjoint ownership x add/remove/replace/nested-edit. Non-trivial: "
        "both sides own a changed cell and two owned cells are adjacent; distinct = canonical JSON of (base, local, remote).")
ASSUMPTIONS = ["expected result known by construction", "alignment precondition evaluated with nbdime's own differ (diff_notebooks)"]
SHRINK_KEYS = []      # by-construction cases: the script is the case; not shrunk structurally


def budget(tier):
    return 1500 if tier == "quick" else 25000


LETTERS = "abcdefghijklmnopqrstuvwxyz"


def distinct_source(i, k=4):
    ch = LETTERS[i % 26]
    return "".join("%s = %s\n" % (ch * (3 + j), (ch.upper() * (6 + 2 * j))) for j in range(k))


@st.composite
def scripted(draw):
    minor = draw(st.sampled_from([5, 5, 5, 4, 0, 2]))
    n = draw(st.integers(2, 7))
    base = draw(N.notebook(minor=minor, min_cells=n, max_cells=n))
    cells = base["cells"]
    # unambiguous alignment: unique ids (minor 5) and dissimilar, non-empty sources everywhere
    for i, c in enumerate(cells):
        c["source"] = distinct_source(i)
        if minor >= 5:
            c["id"] = "c%d" % i
    twins = None
    if n >= 3 and draw(st.sampled_from(range(8))) == 3:
        # two adjacent copy-pasted cells that differ in their last line only (a plot cell duplicated and adapted)
        k = draw(st.integers(0, n - 2))
        body = "".join("value_%d = compute(step=%d, mode='fast')\n" % (j, j) for j in range(12))
        for j, which in ((k, 1), (k + 1, 2)):
            cells[j]["source"] = body + "plot(value_%d)" % which
        twins = k
    owners = [draw(st.sampled_from(["L", "R", "N", "N"])) for _ in range(n)]
    forced_acts = {}
    if twins is not None:
        # one side deletes one twin, the other edits (or deletes) the other twin
        sa, sb = draw(st.sampled_from([("L", "R"), ("R", "L")]))
        owners[twins], owners[twins + 1] = sa, sb
        forced_acts = dict(zip((twins, twins + 1), draw(st.sampled_from([("source", "delete"), ("delete", "source"), ("source", "delete"), ("metadata", "delete")]))))
    if "L" not in owners:
        owners[draw(st.integers(0, n - 1))] = "L"
    if "R" not in owners:
        j = draw(st.sampled_from([k for k in range(n) if owners[k] != "L"] or [0]))
        owners[j] = "R"
    acts = []
    new = {"L": {}, "R": {}}          # side -> {index: new cell or None(deleted)}
    for i, c in enumerate(cells):
        o = owners[i]
        if o == "N":
            acts.append(None)
            continue
        kinds = ["source", "outputs", "metadata", "ec", "delete", "type_only", "source_exotic", "stream_cr"] if c["cell_type"] == "code" else \
            ["source", "metadata", "delete", "attach", "type_only", "source_exotic"]
        a = forced_acts.get(i) or draw(st.sampled_from(kinds))
        acts.append(a)
        if a == "delete":
            new[o][i] = None
            continue
        # some actions need something in the BASE cell to act on (cells[i] is the base's own cell object)
        if a == "type_only":
            c["metadata"]["points"] = draw(st.sampled_from([2, 1, 0, 2.0, True]))
        elif a == "source_exotic":
            # the same distinct lines, separated by a form feed / lone CR / unicode line separator instead of the first "\n"
            c["source"] = c["source"].replace("\n", draw(st.sampled_from(["\x0c", "\r", "\u2028", "\x1e", "\x85"])), 1)
        elif a == "stream_cr":
            c["outputs"] = [{"output_type": "stream", "name": "stdout", "text": "epoch 1\r 10%|#   |\r 50%|##  |\r100%|####|\nloss 0.123\ndone\n"}]
        c2 = copy.deepcopy(c)
        if a == "type_only":
            v = c["metadata"]["points"]
            c2["metadata"]["points"] = draw(st.sampled_from([x for x in ([2, 2.0] if v in (2, 2.0) and v is not True else [1, 1.0, True] if v == 1 else [0, 0.0, False])
                                                                 if type(x) is not type(v)]))
        elif a == "source_exotic":
            lines = c2["source"].splitlines(True)
            k = draw(st.integers(1, len(lines) - 1))
            lines[k] = lines[k].rstrip("\n") + "  # edited\n"
            c2["source"] = "".join(lines)
        elif a == "stream_cr":
            c2["outputs"][0]["text"] = c2["outputs"][0]["text"].replace("0.123", draw(st.sampled_from(["0.033", "0.1"])))
        elif a == "source":
            lines = c2["source"].splitlines(True)
            w = draw(st.sampled_from(["append", "modify", "insert", "drop"]))
            ch = LETTERS[i % 26]
            if w == "append":
                lines.append("%s_new = 1" % (ch * 4))
            elif w == "modify":
                k = draw(st.integers(0, len(lines) - 1))
                lines[k] = lines[k].rstrip("\n") + "  # edited\n"
            elif w == "insert":
                lines.insert(draw(st.integers(0, len(lines))), "%s_ins = 2\n" % (ch * 5))
            else:
                del lines[draw(st.integers(0, len(lines) - 1))]
            c2["source"] = "".join(lines)
        elif a == "outputs":
            c2 = draw(N.edit_cell(c, minor, ["outputs"]))
        elif a == "metadata":
            mk = draw(st.sampled_from(["edited_by_", "2nd_edit_by_", "3d_"])) + o
            c2["metadata"] = dict(c2["metadata"], **{mk: draw(st.sampled_from([True, 1, "x", [1], {"k": 0}]))})
        elif a == "ec":
            c2["execution_count"] = draw(st.sampled_from([7, 8, 9])) + (c["execution_count"] or 0)
        elif a == "attach":
            c2 = draw(N.edit_cell(c, minor, ["attach"]))
        if canon(c2) == canon(c):
            c2["metadata"] = dict(c2["metadata"], **{"touched_by_" + o: True})
        new[o][i] = c2
    # insertions: gap g lies before cell g (g = n: at end)
    inserts = {"L": {}, "R": {}}
    uid = itertools.count()
    for g in range(n + 1):
        neigh = [k for k in (g - 1, g) if 0 <= k < n]
        for side, other in (("L", "R"), ("R", "L")):
            if g in inserts[other]:
                continue
            if any(owners[k] == other for k in neigh):
                continue
            if draw(st.sampled_from([True, False, False, False, False])):
                k = next(uid)
                c = {"cell_type": draw(st.sampled_from(["code", "markdown"])), "metadata": {}, "source": distinct_source(10 + k + (13 if side == "R" else 0), 3)}
                if c["cell_type"] == "code":
                    c["execution_count"] = None
                    c["outputs"] = []
                if minor >= 5:
                    c["id"] = "%snew%d" % (side, k)
                inserts[side][g] = [c]
    nbmeta = {"L": None, "R": None}
    if draw(st.booleans()):
        nbmeta["L"] = ("only_local", draw(st.sampled_from([1, "v", [1, 2]])))
    if draw(st.booleans()):
        nbmeta["R"] = ("only_remote", draw(st.sampled_from([2, "w", {"a": 1}])))

    def build(sides):
        nb = copy.deepcopy(base)
        out = []
        for g in range(n + 1):
            for s_ in sides:
                out.extend(copy.deepcopy(inserts[s_].get(g, [])))
            if g < n:
                c = cells[g]
                o = owners[g]
                if o in sides and g in new[o]:
                    c = new[o][g]
                if c is not None:
                    out.append(copy.deepcopy(c))
        nb["cells"] = out
        for s_ in sides:
            if nbmeta[s_]:
                nb["metadata"][nbmeta[s_][0]] = nbmeta[s_][1]
        return nb
    adjacent = any(owners[k] != "N" and owners[k + 1] != "N" for k in range(n - 1))
    return {"kind": "nb", "base": base, "local": build(["L"]), "remote": build(["R"]), "expected": build(["L", "R"]),
            "owners": owners, "actions": acts, "adjacent": adjacent, "near_duplicate_cells_at": twins,
            "inserts": {s_: sorted(inserts[s_]) for s_ in ("L", "R")}}


@st.composite
def scripted_large(draw):
    """A long notebook: one side inserts a block of new cells in one place and deletes a block of its own cells elsewhere
    (so positions shift by more than the length difference), the other side edits cells in between."""
    minor = draw(st.sampled_from([5, 5, 4]))
    n = draw(st.integers(18, 30))
    cells = []
    for i in range(n):
        c = {"cell_type": "code", "metadata": {}, "source": distinct_source(i, 3) + "# cell %d\n" % i, "execution_count": None, "outputs": []}
        if minor >= 5:
            c["id"] = "c%d" % i
        cells.append(c)
    base = {"nbformat": 4, "nbformat_minor": minor, "metadata": {}, "cells": cells}
    side = draw(st.sampled_from(["L", "R"]))
    other = "R" if side == "L" else "L"
    k = draw(st.integers(8, min(12, n - n // 2)))     # block to delete
    dstart = draw(st.integers(n // 2, n - k))
    ins_at = draw(st.integers(0, max(0, dstart - 6)))  # gap for the inserted block, well before the deleted block
    m = draw(st.integers(8, 12))
    owners = ["N"] * n
    for i in range(dstart, dstart + k):
        owners[i] = side
    # the other side edits 1-3 cells strictly between the insertion gap and the deleted block, not adjacent to either
    lo, hi = ins_at + 1, dstart - 2
    mids = [i for i in range(lo, hi + 1)]
    edits = draw(st.lists(st.sampled_from(mids), min_size=1, max_size=3, unique=True)) if mids else []
    for i in edits:
        owners[i] = other
    newcells = []
    for j in range(m):
        c = {"cell_type": "markdown", "metadata": {}, "source": "## new section %d\n" % j + distinct_source(30 + j, 2)}
        if minor >= 5:
            c["id"] = "%snew%d" % (side, j)
        newcells.append(c)

    def build(sides):
        out = []
        for g in range(n + 1):
            if g == ins_at and side in sides:
                out.extend(copy.deepcopy(newcells))
            if g < n:
                c = copy.deepcopy(cells[g])
                if owners[g] == side and side in sides:
                    continue
                if owners[g] == other and other in sides:
                    c["source"] = c["source"] + "edited_by_other = True\n"
                out.append(c)
        nb = copy.deepcopy(base)
        nb["cells"] = out
        return nb
    L, R = (build(["L"]), build(["R"]))
    return {"kind": "nb", "base": base, "local": L, "remote": R, "expected": build(["L", "R"]), "owners": owners,
            "actions": ["block_delete", "block_insert", "edit"], "adjacent": True, "inserts": {side: [ins_at], other: []}, "large": True}


@st.composite
def large_list(draw):
    n = draw(st.integers(16, 32))
    base = ["item%d" % i for i in range(n)]
    side = draw(st.sampled_from(["L", "R"]))
    k = draw(st.integers(8, min(12, n - n // 2)))
    dstart = draw(st.integers(n // 2, n - k))
    ins_at = draw(st.integers(0, max(0, dstart - 6)))
    m = draw(st.integers(8, 12))
    mids = list(range(ins_at + 1, dstart - 1))
    edits = draw(st.lists(st.sampled_from(mids), min_size=1, max_size=3, unique=True)) if mids else []

    def build(sides):
        out = []
        for g in range(n + 1):
            if g == ins_at and side in sides:
                out.extend("new%d" % j for j in range(m))
            if g < n:
                if dstart <= g < dstart + k and side in sides:
                    continue
                other = "R" if side == "L" else "L"
                out.append(base[g] + "_edited" if (g in edits and other in sides) else base[g])
        return out
    return {"kind": "list", "base": base, "local": build("L"), "remote": build("R"), "expected": build("LR"), "owners": "large", "actions": ["block"]}


def strategy(tier):
    small = st.tuples(scripted(), S.strategy_args()).map(lambda t: dict(t[0], combo=t[1]))
    large = st.tuples(scripted_large(), S.strategy_args()).map(lambda t: dict(t[0], combo=t[1]))
    return st.one_of(small, small, small, small, small, small, large, large_list())


def precheck(case):
    if case["kind"] != "nb":
        return None
    for k in ("base", "local", "remote", "expected"):
        e = N.schema_errors(case[k])
        if e:
            return "%s not schema-valid: %s" % (k, e[0])
    return None


# ----------------------------------------------------------------------------- generic analogue, enumerated

def exhaustive(tier, shard, nshards):
    nmax = 5 if tier == "quick" else 7
    cnt = 0
    for n in range(2, nmax + 1):
        base = ["e%d" % i for i in range(n)]
        for owners in itertools.product("LRN", repeat=n):
            if "L" not in owners or "R" not in owners:
                continue
            # L- and R-owned positions must be separated by an untouched item
            if any({owners[i], owners[i + 1]} == {"L", "R"} for i in range(n - 1)):
                continue
            owned = [i for i in range(n) if owners[i] != "N"]
            for acts in itertools.product(("replace", "delete", "insert_before"), repeat=len(owned)):
                cnt += 1
                if cnt % nshards != shard:
                    continue
                amap = dict(zip(owned, acts))

                def build(sides):
                    out = []
                    for i, v in enumerate(base):
                        if owners[i] in sides:
                            a = amap[i]
                            if a == "replace":
                                out.append("%s_%s" % (v, owners[i]))
                            elif a == "insert_before":
                                out.extend(["new%d_%s" % (i, owners[i]), v])
                        else:
                            out.append(v)
                    return out
                yield {"kind": "list", "base": base, "local": build("L"), "remote": build("R"), "expected": build("LR"),
                       "owners": "".join(owners), "actions": list(acts)}
    keys = ["p", "2019", "3d_view", "07"]       # integer-looking / digit-leading keys are ordinary JSON object keys
    bvals = {"p": 1, "2019": "text\nline\n", "3d_view": {"x": 1, "y": [1, 2]}, "07": [1, 2, 3]}
    for present in itertools.product((True, False), repeat=4):
        base = {k: copy.deepcopy(bvals[k]) for k, p in zip(keys, present) if p}
        for owners in itertools.product("LRN", repeat=4):
            if "L" not in owners or "R" not in owners:
                continue
            cnt += 1
            if cnt % nshards != shard:
                continue
            for variant in range(3):
                def build(sides):
                    d = copy.deepcopy(base)
                    for k, o in zip(keys, owners):
                        if o not in sides:
                            continue
                        if k not in base:
                            d[k] = "added_by_%s" % o
                        elif variant == 0:
                            del d[k]
                        elif variant == 1:
                            d[k] = "replaced_by_%s" % o
                        else:   # nested edit where possible
                            v = d[k]
                            if isinstance(v, dict):
                                v["z_" + o] = True
                            elif isinstance(v, list):
                                v.append("tail_" + o)
                            elif isinstance(v, str):
                                d[k] = v + "more_%s\n" % o
                            else:
                                d[k] = v + 1
                    return d
                yield {"kind": "dict", "base": base, "local": build("L"), "remote": build("R"), "expected": build("LR"),
                       "owners": "".join(owners), "actions": [variant]}


# ----------------------------------------------------------------------------- oracle

def touched_base_cells(d):
    """Base cell indexes a notebook diff touches (removes or patches); None if /cells is replaced wholesale."""
    idx = set()
    for e in d:
        if e.get("key") != "cells":
            continue
        if e.get("op") != "patch":
            return None
        for x in e["diff"]:
            if x["op"] == "removerange":
                idx.update(range(x["key"], x["key"] + x["length"]))
            elif x["op"] == "patch":
                idx.add(x["key"])
    return idx


def run_case(case):
    out = Outcome()
    kind = case["kind"]
    out.label("kind_" + kind)
    b, l, r, e = case["base"], case["local"], case["remote"], case["expected"]
    out.ntkey = [b, l, r]
    if kind != "nb":
        from nbdime.merging.generic import decide_merge
        from nbdime.merging.decisions import apply_decisions
        reset_state()
        try:
            dec = decide_merge(copy.deepcopy(b), copy.deepcopy(l), copy.deepcopy(r))
            m = plain(apply_decisions(copy.deepcopy(b), dec))
        except Exception as ex:
            out.fail_exc("generic_completes", ex)
            return out
        out.nontrivial = True
        if any(d.get("conflict") for d in dec):
            out.fail("generic_no_conflict", "reports_conflict", "%s %s" % (kind, " ".join(sorted(set(map(str, case["actions"]))))))
        elif canon(m) != canon(e):
            out.fail("generic_both_changes", "wrong_result", _first_difference(m, e))
        return out
    import nbdime
    owners = case["owners"]
    # soundness precondition: the differ attributes each side's changes to that side's cells
    try:
        reset_state()
        tl = touched_base_cells(plain(nbdime.diff_notebooks(to_nb(b), to_nb(l))))
        tr = touched_base_cells(plain(nbdime.diff_notebooks(to_nb(b), to_nb(r))))
    except Exception:
        out.count("diff_raised_(C01)")
        return out
    ownedL = {i for i, o in enumerate(owners) if o == "L"}
    ownedR = {i for i, o in enumerate(owners) if o == "R"}
    if tl is None or tr is None or not tl <= ownedL or not tr <= ownedR:
        # The cases are unambiguous by construction (unique ids, pairwise dissimilar non-empty sources), so a differ that
        # attributes a side's change to cells that side does not own is not excused: it is only counted and the merge is
        # judged all the same (on the unchanged tree this class is empty).
        out.label("diff_touches_unowned_cells")
    out.nontrivial = bool(case["adjacent"])
    if case["inserts"]["L"] or case["inserts"]["R"]:
        out.label("with_insertions")
    for a in (S.default_args(), case["combo"]):
        m, dec, exc = M.run_merge(b, l, r, a)
        if exc is not None:
            out.fail_exc("merge_completes", exc, detail={"args": a})
            continue
        if M.conflicted(dec):
            out.fail("no_conflict", "reports_conflict", detail={"args": a, "owners": owners, "actions": case["actions"]})
        elif canon(m) != canon(e):
            out.fail("both_changes_applied", "wrong_result", _first_difference(m, e),
                     detail={"args": a, "owners": owners, "actions": case["actions"]})
    return out


ESSENTIAL_LABELS = {}


def finalize(tier, merged):
    nb = merged["labels"].get("kind_nb", 0)
    ex = merged["labels"].get("diff_touches_unowned_cells", 0)
    return {"diff_touches_unowned_cells_share": round(ex / nb, 4) if nb else 0.0}


def _twins(case, f):
    """The base holds two adjacent cells that differ in one line only (see `scripted`): the aligner cannot tell such twins apart."""
    return case.get("near_duplicate_cells_at") is not None and "id" not in case["base"]["cells"][0]


DISCRIMINATORS = {"adjacent_near_duplicate_cells_without_ids": _twins}
