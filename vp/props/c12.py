"""C12  Diffing is a pure function of its inputs: no dependence on process history."""
import copy
import json
import os
import subprocess
import sys

from hypothesis import strategies as st

from ..runner import Outcome, canon, ROOT, REPO
from ..gen import notebooks as N
from ..gen import strategies as S

ID = "C12"
LEVEL = "exploration"
RULE = ("histories: generated programs of 4-25 steps over a pool of 3-5 notebooks (related by edit scripts; metadata / JSON outputs whose "
        "value at one path is a list of lists in one notebook and a list of objects - or a scalar of any type, or an object - in another), steps = diff(i,j), merge(b,l,r,strategy), "
        "set_notebook_diff_targets(six booleans), set_notebook_diff_ignores({path: True|False}), reset_notebook_differ(), and flag parsing "
        "through the real nbdiff parser + process_diff_flags. The whole program runs in ONE process forked from a pristine fork server "
        "(nbdime imported, never called); every diff/merge step is compared with the same call in ANOTHER fresh fork that first replays only "
        "the ignore configuration in force (calls since the last reset / total override by set_targets or flags - not the earlier diffs and "
        "merges). Values are compared as canonical JSON, failures as (exception type, innermost nbdime frame). A sample of queries is also "
        "re-run in a brand-new `python -c` interpreter to validate the fork model. Non-trivial: >=3 diff/merge steps, >=1 configuration "
        "change and a query repeated after other traffic; distinct = canonical JSON of the program.")
ASSUMPTIONS = ["a process forked from an interpreter that imported but never called nbdime behaves like a freshly started interpreter (cross-checked "
               "against real new interpreters on a sample)", "set_notebook_diff_targets / ignorable flags are total overrides of the category "
               "paths, set_notebook_diff_ignores with True/False is a per-path assignment (last wins); key-list stacking is not judged",
               "nbformat's random cell-id generator is pinned before every query step on both sides"]
SHRINK_KEYS = ["steps"]
SHRINK_EVALS = 250

PATHS = ["/metadata", "/cells/*/metadata", "/cells/*/outputs", "/cells/*/source", "/cells/*/attachments", "/cells/*/outputs/*/metadata",
         "/cells/*/id"]
FLAGS = ["-s", "-o", "-a", "-m", "-i", "-d", "-S", "-O", "-A", "-M", "-I", "-D"]


def budget(tier):
    return 1000 if tier == "quick" else 12000


def valid(case):
    n = len(case["pool"])
    for s in case["steps"]:
        if not isinstance(s, list) or not s:
            return False
        if s[0] == "diff" and not (len(s) == 3 and all(isinstance(x, int) and 0 <= x < n for x in s[1:])):
            return False
        if s[0] == "merge" and not (len(s) == 5 and all(isinstance(x, int) and 0 <= x < n for x in s[1:4])):
            return False
        if s[0] == "targets" and not (len(s) == 2 and len(s[1]) == 6):
            return False
        if s[0] in ("ignores", "cli") and len(s) != 2:
            return False
    return any(s[0] in ("diff", "merge") for s in case["steps"])


def precheck(case):
    for i, nb in enumerate(case["pool"]):
        e = N.schema_errors(nb)
        if e:
            return "pool[%d] not schema-valid: %s" % (i, e[0])
    return None


# the value at /metadata/grid over the pool: the list shapes of the generator plus scalars of every type and objects, so that one
# path holds a number (string, bool, null) in one call of the history and a changed object or list in a later one
GRID_SHAPES = N.SHAPES + [3, 4, 2.5, "s", "t", True, None, {"k": 1}, {"k": 2, "j": [1]}, {"k": {"a": 1}}, {"k": {"a": 2}, "j": [1]}]


@st.composite
def program(draw, tier):
    base = draw(N.notebook(max_cells=4, min_cells=1))
    # make sure the list-of-lists / list-of-objects shapes meet at one path
    base["metadata"]["grid"] = copy.deepcopy(draw(st.sampled_from(GRID_SHAPES)))
    pool = [base]
    for k in range(draw(st.integers(2, 4))):
        nb = draw(N.edit_notebook(pool[draw(st.integers(0, len(pool) - 1))], "P%d" % k, max_steps=3, min_steps=1))
        nb["metadata"]["grid"] = copy.deepcopy(draw(st.sampled_from(GRID_SHAPES)))
        pool.append(nb)
    if draw(st.sampled_from(range(6))) == 3:
        # a notebook whose metadata has well over a thousand distinct paths (ipywidgets state of a few hundred models), and an edit of it
        wide = copy.deepcopy(base)
        wide["metadata"]["widgets"] = {"model_%03d" % i: {"model_name": "SliderModel", "state": {"value": i % 7, "description": "s%d" % i}} for i in range(400)}
        wide2 = copy.deepcopy(wide)
        wide2["metadata"]["widgets"]["model_007"]["state"]["value"] = 99
        wide2["metadata"]["grid"] = copy.deepcopy(draw(st.sampled_from(GRID_SHAPES)))
        # ... and a copy of the first notebook that differs from it in cell metadata only
        cm = copy.deepcopy(base)
        for c in cm["cells"]:
            c["metadata"] = dict(c["metadata"], vp_touched=True)
        pool += [wide, wide2, cm]
        wide_at = len(pool) - 3
    else:
        wide_at = None
    if tier != "quick" and draw(st.sampled_from(range(40))) == 5:
        # (thorough tiers only: each such pair costs seconds of difflib time)
        # two texts beyond the 10 000-character compare cutoff of mime data, 0.7-0.95 similar: met first as cell sources (no cutoff),
        # later as text/plain of an execute_result (cutoff) - a verdict remembered per pair of texts would leak between the two uses
        t1 = "".join("line %03d of a long text: %s\n" % (i, "abcdefghij" * 8) for i in range(110))
        t2 = "".join("line %03d of a long text: %s\n" % (i, ("abcdefghij" if i % 5 else "ABCDEFGHIJ") * 8) for i in range(110))
        def _cell(src, outs, k):
            c = {"cell_type": "code", "metadata": {}, "source": src, "outputs": outs, "execution_count": 1 if outs else None}
            if base.get("nbformat_minor", 0) >= 5:
                c["id"] = "long%d" % k
            return c
        def _res(t):
            return [{"output_type": "execute_result", "execution_count": 1, "metadata": {}, "data": {"text/plain": t}}]
        longs = []
        for k, cells in enumerate([[_cell(t1, [], 0)], [_cell(t2, [], 0)], [_cell("x", _res(t1), 0)], [_cell("x", _res(t2), 0)]]):
            nb = copy.deepcopy(base)
            nb["cells"] = cells
            longs.append(nb)
        long_at = len(pool)
        pool += longs
    else:
        long_at = None
    # families (base, L, R) in which both sides insert the same new cell at one position, the two copies differing in ONE category
    families = []
    for k in range(draw(st.sampled_from([0, 1, 2, 2]))):
        fb = pool[draw(st.integers(0, len(pool) - 1))]
        l, r = draw(insert_family(fb, "F%d" % k))
        families.append([pool.index(fb) if fb in pool else 0, len(pool), len(pool) + 1])
        pool += [l, r]
    n = len(pool)
    idx = st.integers(0, n - 1)
    maxlen = 14 if tier == "quick" else 25
    cfg = draw(st.sampled_from([None, None, None] + CONFIG_IGNORES))
    steps = []
    for _ in range(draw(st.integers(4, maxlen))):
        kind = draw(st.sampled_from(["diff", "diff", "diff", "merge", "targets", "ignores", "reset", "cli", "repeat"]))
        if kind == "diff":
            steps.append(["diff", draw(idx), draw(idx)])
        elif kind == "merge":
            if families and draw(st.booleans()):
                f = draw(st.sampled_from(families))
                steps.append(["merge", f[0], f[1], f[2], draw(S.strategy_args(renderers=["git"]))])
            else:
                steps.append(["merge", draw(idx), draw(idx), draw(idx), draw(S.strategy_args(renderers=["git"]))])
        elif kind == "targets":
            steps.append(["targets", [draw(st.booleans()) for _ in range(6)]])
        elif kind == "ignores":
            steps.append(["ignores", {p: draw(st.booleans()) for p in draw(st.lists(st.sampled_from(PATHS), min_size=1, max_size=3, unique=True))}])
        elif kind == "reset":
            steps.append(["reset"])
        elif kind == "cli":
            fl = draw(st.lists(st.sampled_from(FLAGS), max_size=3, unique=True))
            # the parser rejects mixing positive and negative ignorable flags
            if len({f.islower() for f in (x[1] for x in fl)}) > 1:
                fl = [f for f in fl if f[1].islower() == fl[0][1].islower()]
            steps.append(["cli", fl])
        else:
            qs = [s for s in steps if s[0] in ("diff", "merge")]
            if qs:
                steps.append(copy.deepcopy(draw(st.sampled_from(qs))))
    if wide_at is not None and draw(st.sampled_from([True, True, False])):
        # ignore options on metadata, then the diff that walks the thousand metadata paths, then a diff that depends on those options
        # (the notebook-level metadata stays visible, or the wide diff would not be walked at all)
        conf = draw(st.sampled_from([["ignores", {"/cells/*/metadata": True}], ["ignores", {"/cells/*/metadata": True, "/cells/*/outputs/*/metadata": True}],
                                     ["ignores", {"/cells/*/metadata": True, "/cells/*/id": True}], ["targets", [True, True, True, False, True, True]]]))
        at = draw(st.integers(0, len(steps)))
        steps[at:at] = [conf, ["diff", wide_at, wide_at + 1], ["diff", 0, wide_at + 2], ["diff", wide_at + 1, 0]]
    if long_at is not None:
        at = draw(st.integers(0, len(steps)))
        steps[at:at] = [["diff", long_at, long_at + 1], ["diff", long_at + 2, long_at + 3]]
    for f in families:
        if draw(st.booleans()):
            # the same triple merged twice in a row under two option sets that differ in one option
            x = draw(S.strategy_args(renderers=["git"]))
            y = dict(x, transients=not x.get("transients", True)) if draw(st.booleans()) else dict(x, output=draw(st.sampled_from([None, "use-local", "remove"])))
            at = draw(st.integers(0, len(steps)))
            steps[at:at] = [["merge", f[0], f[1], f[2], x], ["merge", f[0], f[1], f[2], y]]
    if not any(s[0] in ("diff", "merge") for s in steps):
        steps.append(["diff", 0, n - 1])
    return {"pool": pool, "steps": steps, "config_ignore": cfg, "fresh_check": draw(st.sampled_from([True] + [False] * 39))}


CONFIG_IGNORES = [{"/metadata": ["grid"]}, {"/cells/*/metadata": ["collapsed", "scrolled", "tags", "trusted"]}, {"/cells/*/outputs": True},
                  {"/cells/*/source": True, "/metadata": ["grid", "kernelspec"]}]


@st.composite
def insert_family(draw, base, tag):
    """Both sides insert a copy of one new code cell at the same position; the copies differ in exactly one ignorable category."""
    l, r = copy.deepcopy(base), copy.deepcopy(base)
    minor = base["nbformat_minor"]
    pos = draw(st.integers(0, len(base["cells"])))
    used = N._ids(base)
    c = {"cell_type": "code", "metadata": {}, "execution_count": 3, "source": "x = compute(%s)\nprint(x)\nplot(x)\n" % tag,
         "outputs": [{"output_type": "stream", "name": "stdout", "text": "first line %s\nsecond line\n" % tag}]}
    if minor >= 5:
        c["id"] = N._fresh_id(used, tag)
    c2 = copy.deepcopy(c)
    what = draw(st.sampled_from(["outputs", "outputs", "metadata", "source", "details", "id", "delete_vs_rerun", "delete_vs_rerun"]))
    if what == "delete_vs_rerun" and base["cells"]:
        # one side deletes a code cell, the other only re-executed it (a transient change): conflict or not depends on the options
        k = draw(st.integers(0, len(base["cells"]) - 1))
        cc = {"cell_type": "code", "metadata": {}, "execution_count": 3, "source": "y = rerun(%s)\n" % tag, "outputs": []}
        if minor >= 5:
            cc["id"] = N._fresh_id(used, tag + "x")
        for nb_ in (base, l, r):
            nb_["cells"].insert(k, copy.deepcopy(cc))
        del l["cells"][k]
        r["cells"][k]["execution_count"] = 9
        if draw(st.booleans()):
            l, r = r, l
        return l, r
    if what == "outputs":
        c2["outputs"][0]["text"] = "first line %s\nsecond line changed\n" % tag
    elif what == "metadata":
        c2["metadata"] = {"collapsed": True}
    elif what == "source":
        c2["source"] = c["source"].replace("print(x)", "print(x, x)")
    elif what == "details":
        c2["execution_count"] = 8
    elif what == "id" and minor >= 5:
        c2["id"] = N._fresh_id(used | {c["id"]}, tag + "r")
    if draw(st.booleans()):
        c, c2 = c2, c
    l["cells"].insert(pos, c)
    r["cells"].insert(pos, c2)
    return l, r



def strategy(tier):
    return program(tier)


# ----------------------------------------------------------------------------- executed inside forks of the pristine server

def _exec_step(step, pool):
    """Apply one step; returns a result record for queries, None for configuration steps."""
    import nbdime
    import nbdime.diffing.notebooks as nbs
    from ..nbd import plain, to_nb, pin_ids, quiet
    from ..runner import innermost_frame, normalise_msg
    kind = step[0]
    quiet()
    if kind == "targets":
        nbs.set_notebook_diff_targets(*step[1])
        return None
    if kind == "ignores":
        nbs.set_notebook_diff_ignores(dict(step[1]))
        return None
    if kind == "reset":
        nbs.reset_notebook_differ()
        return None
    if kind == "cli":
        from nbdime import nbdiffapp
        from nbdime.args import process_diff_flags
        sys.argv[:] = ["nbdiff"]
        parser = nbdiffapp._build_arg_parser()
        parser.prog = "nbdiff"
        args = parser.parse_args(list(step[1]) + ["a.ipynb", "b.ipynb"])
        process_diff_flags(args)
        quiet()
        return None
    pin_ids()
    try:
        if kind == "diff":
            val = plain(nbdime.diff_notebooks(to_nb(pool[step[1]]), to_nb(pool[step[2]])))
        else:
            from nbdime.merging.notebooks import merge_notebooks
            args = S.build_args(step[4])
            with S.renderer(step[4].get("renderer", "git")):
                merged, dec = merge_notebooks(to_nb(pool[step[1]]), to_nb(pool[step[2]]), to_nb(pool[step[3]]), args)
            val = [plain(merged), json.loads(json.dumps(dec))]
        return ["ok", canon(val)]
    except Exception as e:
        return ["exc", type(e).__name__, innermost_frame(e), normalise_msg(str(e))]


def _run_steps(steps, pool, cfg=None):
    """Runs the steps; with `cfg`, an nbdime_config.json holding {"NbDiff": {"Ignore": cfg}} is what the command line finds."""
    import shutil
    import tempfile
    d = None
    if cfg:
        import nbdime.config as nc
        d = tempfile.mkdtemp(prefix="vp_c12_")
        with open(os.path.join(d, "nbdime_config.json"), "w") as f:
            json.dump({"NbDiff": {"Ignore": cfg}}, f)
        os.environ["JUPYTER_CONFIG_DIR"] = d
        os.environ.pop("JUPYTER_CONFIG_PATH", None)
        nc._config_cache.clear()
    try:
        return [_exec_step(s, pool) for s in steps]
    finally:
        if d:
            shutil.rmtree(d, ignore_errors=True)


def config_in_force(steps, cfg=None):
    """Configuration steps that determine the ignore options in force after `steps` (model of the documented semantics).
    With a config file `Ignore` section, every command-line parse installs it (like an `ignores` step) before the flags are looked at."""
    out = []
    for s in steps:
        if s[0] == "reset":
            out = []
        elif s[0] == "targets":
            out = [s]
        elif s[0] == "cli":
            if s[1]:
                out = [s]
            elif cfg:
                out.append(s)
        elif s[0] == "ignores":
            out.append(s)
    return out


def handle(job):
    """Runs in the pristine server: one fork for the whole program, one fresh fork per query."""
    from ..forksrv import run_in_fork
    steps, pool, cfg = job["steps"], job["pool"], job.get("config_ignore")
    long = run_in_fork(_run_steps, steps, pool, cfg)
    refs = []
    for i, s in enumerate(steps):
        if s[0] in ("diff", "merge"):
            refs.append(run_in_fork(_run_steps, config_in_force(steps[:i], cfg) + [s], pool, cfg)[-1])
        else:
            refs.append(None)
    return {"long": long, "refs": refs}


FRESH_SNIPPET = r'''
import sys, json
sys.argv[:] = ["nbdiff"]
job = json.load(open(sys.argv[1])) if False else json.load(sys.stdin)
from vp.props import c12
res = c12._run_steps(job["steps"], job["pool"], job.get("config_ignore"))
print("RESULT" + json.dumps(res[-1]))
'''


def fresh_interpreter(steps, pool, cfg=None):
    env = dict(os.environ)
    env["PYTHONPATH"] = os.pathsep.join([REPO, ROOT, os.path.join(ROOT, "stubs"), os.path.join(ROOT, ".deps")])
    d = os.path.join(ROOT, ".fresh_cwd")
    os.makedirs(d, exist_ok=True)
    env["JUPYTER_CONFIG_DIR"] = d
    env["JUPYTER_CONFIG_PATH"] = d
    p = subprocess.run([sys.executable, "-c", FRESH_SNIPPET], input=json.dumps({"steps": steps, "pool": pool, "config_ignore": cfg}), capture_output=True,
                       text=True, env=env, cwd=d, timeout=120)
    for line in p.stdout.splitlines():
        if line.startswith("RESULT"):
            return json.loads(line[6:])
    raise RuntimeError("fresh interpreter gave no result: %s" % (p.stderr[-500:],))


def run_case(case):
    from ..forksrv import server
    out = Outcome()
    steps, pool, cfg = case["steps"], case["pool"], case.get("config_ignore")
    res = server().call({"handler": "vp.props.c12:handle", "steps": steps, "pool": pool, "config_ignore": cfg})
    if cfg:
        out.label("config_file_with_Ignore_section")
        if any(s[0] == "cli" for s in steps):
            out.count("programs_parsing_command_line_under_config_Ignore")
    queries = [i for i, s in enumerate(steps) if s[0] in ("diff", "merge")]
    confs = [i for i, s in enumerate(steps) if s[0] in ("targets", "ignores", "reset", "cli")]
    seen = []
    repeated = False
    for i in queries:
        key = json.dumps(steps[i])
        if key in seen[:-1] or (key in seen and seen[-1] != key):
            repeated = True
        seen.append(key)
    out.nontrivial = len(queries) >= 3 and len(confs) >= 1 and repeated
    out.count("query_steps", len(queries))
    out.count("configuration_steps", len(confs))
    for i in queries:
        lo, ref = res["long"][i], res["refs"][i]
        out.count("queries_kind_" + steps[i][0])
        if lo[0] == "exc":
            out.count("queries_raising_in_long_process")
        if lo != ref:
            if lo[0] == "exc" and ref[0] == "ok":
                out.fail("history_independent", "fails_only_after_history", "%s in %s" % (lo[1], lo[2]),
                         detail={"step": i, "op": steps[i][0], "long": lo, "config_in_force": config_in_force(steps[:i], cfg)})
            elif lo[0] == "ok" and ref[0] == "exc":
                out.fail("history_independent", "fails_only_when_fresh", "%s in %s" % (ref[1], ref[2]),
                         detail={"step": i, "op": steps[i][0], "ref": ref})
            else:
                out.fail("history_independent", "result_depends_on_history", steps[i][0],
                         detail={"step": i, "op": steps[i][0], "config_in_force": config_in_force(steps[:i], cfg),
                                 "history": [s[0] for s in steps[:i]]})
            break
    if case.get("fresh_check") and queries:
        i = queries[-1]
        out.count("cross_checked_against_new_interpreter")
        try:
            fresh = fresh_interpreter(config_in_force(steps[:i], cfg) + [steps[i]], pool, cfg)
        except Exception as e:
            raise RuntimeError("fresh interpreter cross-check failed to run: %s" % e)
        if fresh != res["refs"][i]:
            out.fail("fork_model_equals_new_interpreter", "fork_reference_differs_from_new_interpreter", steps[i][0], detail={"step": i})
    return out


DISCRIMINATORS = {}
