"""C02  Generic JSON diff/patch round trip is exact, including value types."""
import copy
import itertools

from hypothesis import strategies as st

from ..runner import Outcome, canon
from ..gen import jsondocs as G
from ..oracles.refpatch import refpatch, RefPatchError
from ..oracles.wellformed import wellformed
from ..nbd import plain, reset_state

ID = "C02"
LEVEL = "exploration"
RULE = ("pairs (a,b) of JSON documents of equal container type: (1) every pair of lists of length<=L over "
        "{0,1,true,1.0,'a',[0],{'k':0}}, of strings of length<=S over {a,b,\\n,\\r,\\x0b}, of objects over keys {p,q} with 8 "
        "values each (enumerated completely); (2) hypothesis-generated nested documents, b an edit script of a "
        "(insert/delete/replace/duplicate/move/type-only change/line edit/line-ending change) or unrelated (10%). "
        "Oracles: canon(patch(a,diff(a,b)))==canon(b) type-strictly; independent reference patcher gives canon(b); "
        "diff==[] implies canon(a)==canon(b); no exception. Non-trivial: canon(a)!=canon(b) and both non-empty; "
        "distinct = distinct canonical JSON of (a,b).")
ASSUMPTIONS = ["reference patcher vp/oracles/refpatch.py written from docs/source/diffing.rst",
               "canonical JSON = json.dumps(sort_keys=True), type-strict"]
SHRINK_KEYS = ["a", "b"]


def valid(case):
    a, b = case["a"], case["b"]
    return type(a) is type(b) and isinstance(a, (list, dict, str))


def budget(tier):
    return 6000 if tier == "quick" else 120000


def strategy(tier):
    return G.pair().map(lambda t: {"a": t[0], "b": t[1], "rel": t[2]})


def _domains(tier):
    L, S = (3, 4) if tier == "quick" else (4, 5)
    lists = list(G.all_lists(G.LIST_ALPHABET, L))
    strs = list(G.all_strings(G.STR_ALPHABET, S))
    objs = list(G.all_objects(["p", "7"], G.OBJ_VALUES))
    return lists, strs, objs


def exhaustive(tier, shard, nshards):
    lists, strs, objs = _domains(tier)
    n = 0
    for dom in (lists, strs, objs):
        for a in dom:
            n += 1
            if n % nshards != shard:
                continue
            for b in dom:
                yield {"a": a, "b": b, "rel": "enum"}


def run_case(case):
    import nbdime
    out = Outcome()
    a, b = case["a"], case["b"]
    reset_state()
    ca, cb = canon(a), canon(b)
    out.label("type_" + type(a).__name__, "rel_" + case.get("rel", "?"))
    out.nontrivial = ca != cb and len(a) > 0 and len(b) > 0
    a0, b0 = copy.deepcopy(a), copy.deepcopy(b)
    try:
        d = nbdime.diff(a0, b0)
    except Exception as e:
        out.fail_exc("no_exception_diff", e)
        return out
    pd = plain(d)
    if not pd and ca != cb:
        out.fail("empty_diff_iff_identical", "empty_diff_for_different_docs", _first_difference(a, b))
        return out
    if pd and ca == cb:
        out.label("nonempty_diff_for_identical")   # allowed by the statement (only 'empty => identical')
    try:
        p = nbdime.patch(copy.deepcopy(a), d)
        if canon(plain(p)) != cb:
            out.fail("roundtrip", "patched_differs_from_target", _first_difference(plain(p), b))
        else:
            # the same diff object applied a second time, and after a JSON round trip, gives the same document
            p2 = nbdime.patch(copy.deepcopy(a), d)
            if canon(plain(p2)) != cb:
                out.fail("roundtrip", "second_patch_with_the_same_diff_differs", _first_difference(plain(p2), b))
            elif canon(plain(d)) != canon(pd):
                out.fail("roundtrip", "diff_changed_by_patching", _first_difference(plain(d), pd))
    except Exception as e:
        out.fail_exc("no_exception_patch", e)
    try:
        r = refpatch(a, pd)
        if canon(r) != cb:
            out.fail("reference_patcher", "refpatch_differs_from_target", _first_difference(r, b))
    except RefPatchError as e:
        out.fail("reference_patcher", "refpatch_rejects_diff", str(e))
    return out


def _first_difference(x, y, path=""):
    """Short classifier of the first difference (used for bucketing, not for judging)."""
    if type(x) is not type(y):
        return "%s: %s vs %s" % (_gen(path), type(x).__name__, type(y).__name__)
    if isinstance(x, dict):
        for k in sorted(set(x) | set(y)):
            if k not in x or k not in y:
                return "%s: key presence" % _gen(path)
            r = _first_difference(x[k], y[k], path + "/" + k)
            if r:
                return r
        return ""
    if isinstance(x, list):
        if len(x) != len(y):
            return "%s: list length" % _gen(path)
        for i, (u, v) in enumerate(zip(x, y)):
            r = _first_difference(u, v, path + "/*")
            if r:
                return r
        return ""
    if x != y:
        return "%s: %s value" % (_gen(path), type(x).__name__)
    return ""


def _gen(path):
    """Bucket by the kind of the innermost container only, not by concrete keys."""
    last = path.rsplit("/", 1)[-1]
    return "root" if not path else ("list item" if last == "*" else "dict value")


def _only_numeric_type_leaves(a, b):
    """True iff a and b are equal under Python == (differences are bool/int/float type only)."""
    return a == b and canon(a) != canon(b)


def finalize(tier, merged):
    """Thorough tier (or VERIF_FUZZ=1): a coverage-guided atheris/libFuzzer campaign on the generic differ/patcher with the
    C02 and C11 oracles inside the target, 16 independent processes with fresh corpora."""
    import os
    if tier != "thorough" and not os.environ.get("VERIF_FUZZ"):
        return {}
    from ..fuzzrun import campaign
    return campaign("C02", int(os.environ.get("VERIF_FUZZ_RUNS", "40000")))


DISCRIMINATORS = {
    "docs_equal_under_python_eq": lambda case, f: _only_numeric_type_leaves(case["a"], case["b"]),
}
