"""C16  Terminal rendering of notebooks, diffs and decisions never fails."""
import argparse
import contextlib
import io
import itertools
import re
import shutil

from hypothesis import strategies as st

from ..runner import Outcome, canon
from ..gen import notebooks as N
from ..gen import strategies as S
from ..nbd import plain, reset_state, to_nb

ID = "C16"
LEVEL = "exploration"
CATS = ["sources", "outputs", "attachments", "metadata", "id", "details"]
RULE = ("generated notebooks, their (unfiltered) diffs and merge-decision lists (C01 / C03 spaces, incl. base64 payloads, conflict-marker "
        "look-alikes, '\\\\ No newline at end of file' lines, missing trailing newlines, non-ASCII text) x include-flag subsets (each case "
        "runs 6 of the 64 subsets: all-on, one drawn at random and 4 rotating through the 64 so a run covers all) x colour on/off x "
        "colour-words on/off x renderer {git, diff, builtin difflib} (patched prettyprint.which). Oracles: pretty_print_notebook, "
        "pretty_print_notebook_diff and pretty_print_merge_decisions return; output for [] is empty; for a diff with an entry in a "
        "category whose every covering flag is on, text beyond the 3-line header is printed (category map from the CLI help texts; "
        "output-level metadata / execution_count count only if both their flags are on); with use_color=False the output contains no "
        "ESC[ sequence. Non-trivial: the diff contains a multi-line string patch (external renderer reached) or a base64 payload, and at "
        "least one flag is off; distinct = canonical JSON of (inputs, configuration).")
ASSUMPTIONS = ["generated text never contains ESC itself", "renderer availability simulated by patching nbdime.prettyprint.which",
               "the diff is computed with every category on, so printer-side suppression is what is exercised"]
SHRINK_KEYS = ["a", "b", "base", "local", "remote"]
SHRINK_EVALS = 500
ALL_SUBSETS = [tuple(bool(b) for b in bits) for bits in itertools.product((1, 0), repeat=6)]


def valid(case):
    keys = ("a", "b") if case["kind"] == "nb" else ("base", "local", "remote")
    return all(not N.schema_errors(case[k]) for k in keys)


def precheck(case):
    for k in (("a", "b") if case["kind"] == "nb" else ("base", "local", "remote")):
        e = N.schema_errors(case[k])
        if e:
            return "%s not schema-valid: %s" % (k, e[0])
    return None


def budget(tier):
    return 4000 if tier == "quick" else 30000


@st.composite
def pconf(draw):
    return {"use_color": draw(st.booleans()), "color_words": draw(st.booleans()),
            "renderer": draw(st.sampled_from(["git", "git", "diff", "difflib"])),
            "flags": list(draw(st.sampled_from(ALL_SUBSETS))), "rot": draw(st.integers(0, 63)),
            # the user's own git configuration asks git to colour always (color.ui / color.diff = always)
            "git_color_always": draw(st.sampled_from([False, False, False, True]))}


@st.composite
def marker_text_pair(draw):
    """A cell whose output (or source) is the text of a `git diff` of files without final newline: git's own marker line occurs as CONTENT."""
    a, _, _ = draw(N.pair())
    n = draw(st.integers(1, 3))
    def text(v):
        return "".join('diff --git a/f%d.json b/f%d.json\n@@ -1 +1 @@\n-{"a": 1}\n\\ No newline at end of file\n+{"a": %d}\n\\ No newline at end of file\n' % (k, k, v)
                       for k in range(n))
    c = {"cell_type": "code", "metadata": {}, "source": "!git diff", "execution_count": 1, "outputs": [{"output_type": "stream", "name": "stdout", "text": text(2)}]}
    if a["nbformat_minor"] >= 5:
        c["id"] = "gitdiffcell"
    import copy as _copy
    a["cells"].append(c)
    b = _copy.deepcopy(a)
    if draw(st.booleans()):
        b["cells"][-1]["outputs"][0]["text"] = text(3)
    else:
        a["cells"][-1]["source"] = text(2)
        b["cells"][-1]["source"] = text(3)
    return a, b


def strategy(tier):
    n = st.tuples(st.one_of(*([N.pair()] * 19 + [marker_text_pair()])), pconf()).map(lambda t: {"kind": "nb", "a": t[0][0], "b": t[0][1], "conf": t[1]})
    m = st.tuples(N.triple(), S.strategy_args(renderers=["git"]), pconf()).map(
        lambda t: {"kind": "merge", "base": t[0][0], "local": t[0][1], "remote": t[0][2], "args": t[1], "conf": t[2]})
    return st.one_of(n, n, m)


@contextlib.contextmanager
def diff_renderer(name):
    import nbdime.prettyprint as pp
    real = shutil.which
    if name == "git":
        fake = real
    elif name == "diff":
        fake = lambda cmd, *a, **k: None if cmd == "git" else real(cmd, *a, **k)
    else:
        fake = lambda cmd, *a, **k: None
    saved = pp.which
    pp.which = fake
    try:
        yield
    finally:
        pp.which = saved


def covering_flags(path):
    """Flags that could cover a starred diff-entry path (from the CLI help texts); empty set = always shown."""
    if path.startswith("/cells/*/source"):
        return {"sources"}
    if path.startswith("/cells/*/outputs/*/metadata"):
        return {"outputs", "metadata"}
    if path == "/cells/*/outputs/*/execution_count":
        return {"outputs", "details"}
    if path.startswith("/cells/*/outputs"):
        return {"outputs"}
    if path.startswith("/cells/*/attachments"):
        return {"attachments"}
    if path.startswith("/cells/*/metadata") or path.startswith("/metadata"):
        return {"metadata"}
    if path == "/cells/*/id":
        return {"id", "details"}
    if path.startswith("/cells/*/") or path.startswith("/nbformat"):
        return {"details"}
    return set()


def leaf_paths(d, path=""):
    """Starred paths of the non-patch entries of a diff (string line ops appear as <string path>/*)."""
    for e in d:
        k = e["key"]
        p = path + "/" + ("*" if isinstance(k, int) else str(k))
        if e["op"] == "patch":
            yield from leaf_paths(e["diff"], p)
        else:
            yield p


def must_print(d, on):
    return any(covering_flags(p) <= on for p in leaf_paths(d))


def has_multiline_string_patch(d):
    for e in d:
        if e["op"] == "patch":
            sub = e["diff"]
            if any(x["op"] == "addrange" and x["valuelist"] and all(isinstance(v, str) and v.endswith("\n") for v in x["valuelist"]) for x in sub):
                return True
            if has_multiline_string_patch(sub):
                return True
    return False


def run_case(case):
    import os
    conf = case["conf"]
    if not conf.get("git_color_always"):
        return _run_case(case)
    from .c01 import _workdir
    cfgfile = os.path.join(_workdir(), "gitconfig_color_always")
    with open(cfgfile, "w") as f:
        f.write("[color]\n\tui = always\n\tdiff = always\n")
    saved = os.environ.get("GIT_CONFIG_GLOBAL")
    os.environ["GIT_CONFIG_GLOBAL"] = cfgfile
    try:
        out = _run_case(case)
        out.label("git_config_color_always")
        return out
    finally:
        if saved is None:
            os.environ.pop("GIT_CONFIG_GLOBAL", None)
        else:
            os.environ["GIT_CONFIG_GLOBAL"] = saved


def _run_case(case):
    import nbdime
    import nbdime.prettyprint as pp
    out = Outcome()
    reset_state()
    conf = case["conf"]
    kind = case["kind"]
    out.label("kind_" + kind, "renderer_" + conf["renderer"], "color_%s" % conf["use_color"])
    subsets = [ALL_SUBSETS[0], tuple(conf["flags"])] + [ALL_SUBSETS[(conf["rot"] + 16 * i) % 64] for i in range(4)]
    if kind == "nb":
        a, b = to_nb(case["a"]), to_nb(case["b"])
        try:
            d = nbdime.diff_notebooks(a, b)
        except Exception:
            out.count("diff_raised_(C01)")
            return out
        pd = plain(d)
        dec = None
    else:
        from nbdime.merging.notebooks import decide_notebook_merge
        base, local, remote = (to_nb(case[k]) for k in ("base", "local", "remote"))
        try:
            dec = decide_notebook_merge(base, local, remote, args=S.build_args(case["args"]))
        except Exception:
            out.count("merge_raised_(C03)")
            return out
    esc = re.compile("\x1b\\[")
    nt = False
    seen = set()
    for flags in subsets:
        if flags in seen:
            continue
        seen.add(flags)
        on = {c for c, f in zip(CATS, flags) if f}
        include = argparse.Namespace(**dict(zip(CATS, flags)))
        detail = {"flags_on": sorted(on), "use_color": conf["use_color"], "color_words": conf["color_words"], "renderer": conf["renderer"]}

        def cfg():
            return pp.PrettyPrintConfig(out=io.StringIO(), include=include, color_words=conf["color_words"], use_color=conf["use_color"])

        def run(name, fn):
            c = cfg()
            out.count("renderings")
            try:
                with diff_renderer(conf["renderer"]):
                    fn(c)
            except Exception as e:
                out.fail_exc(name + "_returns", e, detail=detail)
                return None
            text = c.out.getvalue()
            if not conf["use_color"] and esc.search(text):
                out.fail(name + "_no_ansi_when_colour_off", "ansi_escape_in_output", detail=dict(detail, around=text[max(0, esc.search(text).start() - 30):][:80]))
            return text

        if kind == "nb":
            run("notebook", lambda c: pp.pretty_print_notebook(a, c))
            t = run("empty_diff", lambda c: pp.pretty_print_notebook_diff("a.ipynb", "b.ipynb", a, [], c))
            if t:
                out.fail("empty_diff_prints_nothing", "output_for_empty_diff", detail=detail)
            t = run("diff", lambda c: pp.pretty_print_notebook_diff("a.ipynb", "b.ipynb", a, d, c))
            if t is not None and pd:
                body = "".join(t.splitlines(True)[3:])
                if must_print(pd, on) and not body.strip():
                    out.fail("diff_in_shown_category_prints_something", "nothing_printed", detail=dict(detail, paths=sorted(set(leaf_paths(pd)))[:6]))
                if len(on) < 6 and (has_multiline_string_patch(pd) or "iVBOR" in canon(pd) or "R0lGOD" in canon(pd)):
                    nt = True
        else:
            run("decisions", lambda c: pp.pretty_print_merge_decisions(base, dec, c))
            run("notebook", lambda c: pp.pretty_print_notebook(local, c))
            if len(on) < 6 and dec:
                nt = True
    if kind == "nb" and conf["rot"] % 4 == 0:
        cli_clause(out, case, conf, esc)
    out.nontrivial = nt
    out.ntkey = [case.get("a") or case.get("base"), case.get("b") or case.get("local"), case.get("remote"), conf]
    return out


def cli_clause(out, case, conf, esc):
    """The same through the commands: `nbdiff [flags] a b` and `nbshow [flags] a` exit 0, and --no-color output has no ESC[."""
    import os
    import nbformat
    from nbdime import nbdiffapp, nbshowapp
    from .c01 import cli_env, _workdir
    d = _workdir()
    fa, fb = os.path.join(d, "a.ipynb"), os.path.join(d, "b.ipynb")
    nbformat.write(to_nb(case["a"]), fa)
    nbformat.write(to_nb(case["b"]), fb)
    on = [c for c, f in zip(CATS, conf["flags"]) if f]
    flags = []
    if 0 < len(on) < 6:
        flags = ["--" + c for c in on]
    common = flags + ([] if conf["renderer"] == "git" else ["--no-git"] + ([] if conf["renderer"] == "diff" else ["--no-use-diff"]))
    dflags = common + ([] if conf["use_color"] else ["--no-color"]) + (["--color-words"] if conf["color_words"] else [])
    detail = {"flags": dflags}
    for prog, main, argv in (("nbdiff", nbdiffapp.main, dflags + [fa, fb]), ("nbshow", nbshowapp.main, flags + [fa])):
        out.count("cli_runs")
        try:
            with cli_env(prog) as buf:
                rc = main(argv)
            text = buf.getvalue()
        except BaseException as e:
            if isinstance(e, KeyboardInterrupt):
                raise
            out.fail_exc(prog + "_command_returns", e, detail=detail)
            continue
        finally:
            reset_state()
        if rc != 0:
            out.fail(prog + "_command_returns", "nonzero_exit", "status %r" % (rc,), detail=detail)
        if prog == "nbdiff" and not conf["use_color"] and esc.search(text):
            out.fail("nbdiff_no_ansi_when_colour_off", "ansi_escape_in_output", detail=detail)


DISCRIMINATORS = {}
