"""C11  Every produced diff is well-formed for its base document and the diff schema."""
import copy
import json

from hypothesis import strategies as st

from ..runner import Outcome, canon
from ..gen import jsondocs as G
from ..gen import notebooks as N
from ..oracles.wellformed import wellformed, schema_problems, json_roundtrip_problems, addrange_before_others
from ..oracles.refpatch import refpatch, RefPatchError
from ..nbd import plain, reset_state, to_nb
from . import c02

ID = "C11"
LEVEL = "exploration"
RULE = ("diffs produced by nbdime for (1) every pair of the small JSON domains of C02 (enumerated completely), (2) hypothesis JSON "
        "pairs, (3) hypothesis notebook pairs (C01 space), (4) the local/remote/custom/similar-insert diffs inside merge decisions of "
        "hypothesis notebook triples under a sampled strategy (validated against the sub-document at common_path). Oracle: strict "
        "well-formedness relative to the base document (ops ordered by position, addrange before removerange/patch at equal key, at "
        "most one addrange per key, ranges in bounds and non-overlapping, lengths>=1, non-empty valuelists; each object key targeted "
        "once, add=>absent, remove/replace/patch=>present; patches only into containers and never empty; exact field sets), Draft4 "
        "validation against diff_format.schema.json, JSON dump/load round trip unchanged and the revived diff patching to the same "
        "result. Non-trivial: diff has >=2 ops on one level including an addrange and a removerange/patch at the same key, or nesting "
        "depth>=3; distinct = distinct canonical JSON of (base, diff).")
ASSUMPTIONS = ["well-formedness predicate vp/oracles/wellformed.py written from the property statement and docs/source/diffing.rst",
               "string diffs: outer level indexes lines (splitlines with kept ends), nested patch indexes characters of that line"]
SHRINK_KEYS = ["a", "b", "base", "local", "remote"]


def valid(case):
    if case["kind"] == "json":
        return c02.valid(case)
    keys = ("a", "b") if case["kind"] == "nb" else ("base", "local", "remote")
    return all(not N.schema_errors(case[k]) for k in keys)


def precheck(case):
    if case["kind"] == "json":
        return None
    for k in (("a", "b") if case["kind"] == "nb" else ("base", "local", "remote")):
        e = N.schema_errors(case[k])
        if e:
            return "%s is not schema-valid: %s" % (k, e[0])
    return None


def budget(tier):
    return 6000 if tier == "quick" else 60000


def strategy(tier):
    N.enable_long_texts(tier == "thorough")
    from ..gen import strategies as S
    j = G.pair().map(lambda t: {"kind": "json", "a": t[0], "b": t[1]})
    n = N.pair().map(lambda t: {"kind": "nb", "a": t[0], "b": t[1]})
    m = st.tuples(N.triple(), S.strategy_args()).map(
        lambda t: {"kind": "merge", "base": t[0][0], "local": t[0][1], "remote": t[0][2], "args": t[1]})
    return st.one_of(j, n, n, m, m)


def exhaustive(tier, shard, nshards):
    L, S = (3, 3) if tier == "quick" else (4, 4)
    doms = (list(G.all_lists(G.LIST_ALPHABET, L)), list(G.all_strings(G.STR_ALPHABET, S)),
            list(G.all_objects(["p", "q"], G.OBJ_VALUES)))
    n = 0
    for dom in doms:
        for a in dom:
            n += 1
            if n % nshards != shard:
                continue
            for b in dom:
                yield {"kind": "json", "a": a, "b": b}


def depth(d):
    return 1 + max([depth(e["diff"]) for e in d if e.get("op") == "patch"] or [0]) if d else 0


def interesting(d):
    if depth(d) >= 3:
        return True

    def lvl(x):
        adds = {e["key"] for e in x if e.get("op") == "addrange"}
        if any(e.get("op") in ("removerange", "patch") and e["key"] in adds for e in x):
            return True
        return any(lvl(e["diff"]) for e in x if e.get("op") == "patch")
    return lvl(d)


def check_diff(out, base, d, clause, strlevel="lines"):
    """All C11 clauses for one produced diff `d` (nbdime objects) against its base (plain JSON)."""
    import nbdime
    from nbdime.diff_utils import to_diffentry_dicts
    pd = plain(d)
    out.count("diffs_checked")
    if interesting(pd):
        out.count("diffs_interesting")
    probs = wellformed(base, pd, strlevel=strlevel) + addrange_before_others(pd)
    if clause.startswith("decision_"):
        # Diffs collected from several sub-decisions may insert twice at one position (e.g. an insertion both sides agree on plus one side's
        # own): ordered, in bounds and not overlapping, which is all the statement asks. The differs themselves never emit this (one sorted
        # stream per list, the merge chunker relies on it), so it stays an error for differ output.
        rep = [p for p in probs if ": two addranges at " in p]
        if rep:
            out.count("decision_diffs_inserting_twice_at_one_position_(allowed)")
            probs = [p for p in probs if p not in rep]
    for p in probs[:2]:
        out.fail(clause + "_wellformed", "not_wellformed", _gen(p), detail={"problem": p, "diff": pd})
    for p in schema_problems(pd)[:1]:
        out.fail(clause + "_schema", "schema_invalid", _gen(p), detail={"problem": p})
    rt = json_roundtrip_problems(pd)
    for p in rt[:1]:
        out.fail(clause + "_json_roundtrip", "json_roundtrip", p)
    if not probs and not rt and strlevel == "lines" and isinstance(base, (dict, list, str)):
        # the JSON-revived diff must patch to the same result as the in-memory one
        try:
            revived = to_diffentry_dicts(json.loads(json.dumps(pd)))
            p1 = plain(nbdime.patch(copy.deepcopy(base), d))
            p2 = plain(nbdime.patch(copy.deepcopy(base), revived))
            if canon(p1) != canon(p2):
                out.fail(clause + "_json_roundtrip", "revived_diff_patches_differently")
        except Exception as e:
            out.fail_exc(clause + "_revived_patch", e)
    return pd, not probs


def _gen(p):
    import re
    p = re.sub(r"^[^:]*: ", "", p)
    return re.sub(r"'[^']*'", "'K'", p)


def run_case(case):
    import nbdime
    out = Outcome()
    reset_state()
    kind = case["kind"]
    out.label("kind_" + kind)
    if kind == "json":
        a, b = case["a"], case["b"]
        try:
            d = nbdime.diff(copy.deepcopy(a), copy.deepcopy(b))
        except Exception:
            return out      # C02's clause
        pd, ok = check_diff(out, a, d, "generic")
        out.nontrivial = interesting(pd)
        out.ntkey = [a, pd]
    elif kind == "nb":
        a, b = case["a"], case["b"]
        try:
            d = nbdime.diff_notebooks(to_nb(a), to_nb(b))
        except Exception:
            return out      # C01's clause
        pd, ok = check_diff(out, a, d, "notebook")
        out.nontrivial = interesting(pd)
        out.ntkey = [a, pd]
    else:
        from ..gen import strategies as S
        base, local, remote = case["base"], case["local"], case["remote"]
        try:
            args = S.build_args(case["args"])
            with S.renderer(case["args"].get("renderer", "git")):
                from nbdime.merging.notebooks import decide_notebook_merge
                decisions = decide_notebook_merge(to_nb(base), to_nb(local), to_nb(remote), args=args)
        except Exception:
            return out      # C03's clause
        nt = False
        for dec in decisions:
            sub, lvl = resolve_path(base, dec.common_path)
            if sub is _MISSING:
                out.fail("decision_path", "common_path_not_in_base", "")
                continue
            for name in ("local_diff", "remote_diff", "custom_diff", "similar_insert"):
                d = dec.get(name)
                if not d:
                    continue
                if name == "similar_insert":
                    # relative diff from the locally inserted to the remotely inserted items: base is the local valuelist
                    out.count("similar_insert_seen")
                    continue
                if name == "custom_diff" and dec.get("action") != "custom":
                    continue
                pd, ok = check_diff(out, sub, d, "decision_" + name, strlevel=lvl)
                nt = nt or interesting(pd)
        out.nontrivial = nt
        out.ntkey = [base, local, remote, case["args"]]
    return out


def finalize(tier, merged):
    """Thorough tier (or VERIF_FUZZ=1): coverage-guided atheris campaign with the well-formedness oracle inside the target."""
    import os
    if tier != "thorough" and not os.environ.get("VERIF_FUZZ"):
        return {}
    from ..fuzzrun import campaign
    return campaign("C11", int(os.environ.get("VERIF_FUZZ_RUNS", "40000")))


_MISSING = object()


def resolve_path(doc, path):
    """Sub-document at a decision's common_path. A path component indexing into a string selects a line
    (then diffs are character level)."""
    from ..oracles.refpatch import split_lines
    lvl = "lines"
    cur = doc
    for p in path:
        try:
            if isinstance(cur, str):
                cur = split_lines(cur)[p]
                lvl = "chars"
            else:
                cur = cur[p]
        except (KeyError, IndexError, TypeError):
            return _MISSING, lvl
    return cur, lvl
