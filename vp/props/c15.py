"""C15  Browser-side patch and decision application agree with the Python side."""
import glob
import json
import os
import re
import subprocess

from hypothesis import strategies as st

from ..runner import Outcome, ROOT, REPO
from ..gen import notebooks as N
from ..nbd import plain, reset_state, to_nb
from .c02 import _first_difference

ID = "C15"
LEVEL = "exploration"
RULE = ("programs = (base, diff) pairs produced by the Python notebook differ and (base, decisions) pairs produced by the Python merger under "
        "the web tool's 'mergetool' strategy over generated notebook pairs / triples (incl. sources and outputs containing every line "
        "separator str.splitlines honours, and nbformat_minor conflicts). Each is serialised to JSON exactly as the server would send it and "
        "run through BOTH implementations: Python patch / apply_decisions on the JSON-revived objects, and the unmodified TypeScript sources "
        "packages/nbdime/src/patch + merge/decisions executed by Node >= 22.6 (type stripping) through a small ESM loader. Oracle: equal "
        "results under canon_js (canonical JSON with numbers compared by value, since JavaScript has one number type; booleans stay "
        "distinct); any TypeScript exception is a disagreement. The merge tool's side panes (patch(base, buildDiffs(...))) are computed and "
        "only counted. Non-trivial: the diff contains a string patch or >=2 list ops / >=2 decisions; distinct = canonical JSON of the case.")
ASSUMPTIONS = ["Node's --experimental-transform-types and the loader vp/ts/hooks.mjs (resolves extension-less relative imports to .ts, drops type-only "
               "import names, shims @lumino/coreutils JSONExt.deepCopy and json-stable-stringify)", "generated integers stay below 2**53"]
SHRINK_KEYS = ["a", "b", "base", "local", "remote"]
SHRINK_EVALS = 300

NON_JS_BREAKS = "\x0b\x0c\x1c\x1d\x1e\x85\u2028\u2029"


def budget(tier):
    return 6000 if tier == "quick" else 50000


def valid(case):
    keys = ("a", "b") if case["kind"] == "patch" else ("base", "local", "remote")
    return all(not N.schema_errors(case[k]) for k in keys)


def precheck(case):
    for k in (("a", "b") if case["kind"] == "patch" else ("base", "local", "remote")):
        e = N.schema_errors(case[k])
        if e:
            return "%s not schema-valid: %s" % (k, e[0])
    return None


def strategy(tier):
    p = N.pair().map(lambda t: {"kind": "patch", "a": t[0], "b": t[1]})
    m = st.tuples(N.triple(), st.booleans()).map(
        lambda t: {"kind": "merge", "base": t[0][0], "local": t[0][1], "remote": t[0][2], "transients": t[1]})
    return st.one_of(p, p, m)


# ----------------------------------------------------------------------------- node

def find_node():
    cands = ["node"] + sorted(glob.glob(os.path.expanduser("~/.nvm/versions/node/*/bin/node")), reverse=True) + \
        sorted(glob.glob("/root/.nvm/versions/node/*/bin/node"), reverse=True)
    for c in cands:
        try:
            v = subprocess.run([c, "--version"], capture_output=True, text=True, timeout=20).stdout.strip()
        except Exception:
            continue
        m = re.match(r"v(\d+)\.(\d+)", v)
        if m and (int(m.group(1)), int(m.group(2))) >= (22, 6):
            return c
    return None


class NodeServer:
    def __init__(self):
        node = find_node()
        if node is None:
            raise RuntimeError("no Node >= 22.6 found (needed to run the TypeScript sources)")
        tsdir = os.path.join(ROOT, "vp", "ts")
        self.p = subprocess.Popen([node, "--experimental-transform-types", "--no-warnings", "--import", "./register.mjs", "driver.mjs", REPO],
                                  cwd=tsdir, stdin=subprocess.PIPE, stdout=subprocess.PIPE, stderr=subprocess.PIPE, text=True, bufsize=1)
        hello = self.p.stdout.readline()
        if '"ready"' not in hello:
            raise RuntimeError("node driver did not start: %s %s" % (hello, self.p.stderr.read()[:800]))
        self.version = json.loads(hello).get("node")

    def call(self, obj):
        self.p.stdin.write(json.dumps(obj, ensure_ascii=True) + "\n")
        self.p.stdin.flush()
        line = self.p.stdout.readline()
        if not line:
            raise RuntimeError("node driver died: %s" % self.p.stderr.read()[:800])
        return json.loads(line)

    def close(self):
        try:
            self.p.stdin.close()
            self.p.wait(timeout=5)
        except Exception:
            self.p.kill()


_node = {}


def node():
    pid = os.getpid()
    if _node.get("pid") != pid:
        _node["s"] = NodeServer()
        _node["pid"] = pid
        import atexit
        atexit.register(_node["s"].close)
    return _node["s"]


def canon_js(x):
    """Canonical JSON with numbers compared by value as IEEE doubles (booleans stay booleans)."""
    def norm(v):
        if isinstance(v, bool) or v is None or isinstance(v, str):
            return v
        if isinstance(v, (int, float)):
            return ["<num>", repr(float(v))]
        if isinstance(v, list):
            return [norm(i) for i in v]
        if isinstance(v, dict):
            return {k: norm(i) for k, i in v.items()}
        return v
    return json.dumps(norm(x), sort_keys=True, ensure_ascii=False)


def has_string_patch_or_two_ops(d):
    def walk(x):
        if len([e for e in x if e["op"] in ("addrange", "removerange", "patch")]) >= 2:
            return True
        return any(walk(e["diff"]) for e in x if e["op"] == "patch")
    return walk(d)


def texts_of(x):
    if isinstance(x, str):
        yield x
    elif isinstance(x, list):
        for v in x:
            yield from texts_of(v)
    elif isinstance(x, dict):
        for v in x.values():
            yield from texts_of(v)


def run_case(case):
    import nbdime
    from nbdime.diff_utils import to_diffentry_dicts
    from nbdime.merging.decisions import apply_decisions
    from nbdime.merging.notebooks import decide_notebook_merge
    from .c09 import revive
    from ..gen import strategies as S
    out = Outcome()
    reset_state()
    out.label("kind_" + case["kind"])
    srv = node()
    if case["kind"] == "patch":
        a, b = case["a"], case["b"]
        try:
            d = json.loads(json.dumps(nbdime.diff_notebooks(to_nb(a), to_nb(b))))
            py = plain(nbdime.patch(to_nb(a), to_diffentry_dicts(json.loads(json.dumps(d)))))
        except Exception:
            out.count("python_side_raised_(C01)")
            return out
        out.nontrivial = has_string_patch_or_two_ops(d)
        exotic = any(ch in t for t in texts_of([a, d]) for ch in NON_JS_BREAKS)
        if exotic:
            out.label("has_non_js_linebreak")
        r = srv.call({"base": a, "diff": d})
        detail = {"text_has_non_js_linebreak": exotic}
        if "patch_exc" in r:
            out.fail("patch_agrees", "typescript_patch_raises", re.sub(r"\d+", "N", r["patch_exc"])[:60], detail=dict(detail, error=r["patch_exc"]))
        elif canon_js(r.get("patched")) != canon_js(py):
            out.fail("patch_agrees", "typescript_patch_differs", _first_difference(r.get("patched"), py), detail=detail)
        return out
    base, local, remote = case["base"], case["local"], case["remote"]
    try:
        args = S.build_args({"merge": "mergetool", "input": None, "output": None, "transients": case["transients"]})
        dec = json.loads(json.dumps(decide_notebook_merge(to_nb(base), to_nb(local), to_nb(remote), args=args)))
        py = plain(apply_decisions(to_nb(base), revive(json.loads(json.dumps(dec)))))
    except Exception:
        out.count("python_side_raised_(C03)")
        return out
    out.nontrivial = len(dec) >= 2
    actions = sorted({d["action"] for d in dec})
    for a_ in actions:
        out.count("action_" + a_)
    exotic = any(ch in t for t in texts_of([base, dec]) for ch in NON_JS_BREAKS)
    if exotic:
        out.label("has_non_js_linebreak")
    r = srv.call({"base": base, "decisions": dec})
    detail = {"text_has_non_js_linebreak": exotic, "actions": actions, "column0_insert_below_inserted_line": col0_insert_below_line_insert(dec)}
    if "merge_exc" in r:
        out.fail("decisions_agree", "typescript_apply_raises", re.sub(r"\d+", "N", r["merge_exc"])[:60], detail=dict(detail, error=r["merge_exc"]))
    elif canon_js(r.get("merged")) != canon_js(py):
        out.fail("decisions_agree", "typescript_apply_differs", _first_difference(r.get("merged"), py), detail=detail)
    for side, nb in (("local", local), ("remote", remote)):
        if "pane_%s_exc" % side in r:
            out.count("pane_construction_raised_(measured_only)")
        elif canon_js(r.get("pane_" + side)) != canon_js(nb):
            out.count("pane_differs_from_side_(measured_only)")
    return out


def col0_insert_below_line_insert(dec):
    """Some decision inserts characters at column 0 of line k of a string while another inserts lines before line k of that string."""
    def adds(d, key):
        return any(e.get("op") == "addrange" and e.get("key") == key for side in ("local_diff", "remote_diff", "custom_diff") for e in (d.get(side) or []))
    for d1 in dec:
        p1 = d1["common_path"]
        if p1 and isinstance(p1[-1], int) and adds(d1, 0):
            for d2 in dec:
                if d2["common_path"] == p1[:-1] and adds(d2, p1[-1]):
                    return True
    return False


def _col0(case, f):
    d = f.get("detail") or {}
    return bool(d.get("column0_insert_below_inserted_line")) and f.get("kind") == "typescript_apply_differs"


def _astral(case, f):
    """Some text of the case holds a character outside the BMP (in-line diff offsets count code points, JavaScript counts UTF-16 units)."""
    return any(ord(ch) > 0xFFFF for t in texts_of(case) for ch in t)


def _non_js_linebreak(case, f):
    return bool((f.get("detail") or {}).get("text_has_non_js_linebreak"))


def _take_max(case, f):
    d = f.get("detail") or {}
    return "take_max" in (d.get("actions") or []) and "take_max" in (d.get("error") or "")


def _proto_key(case, f):
    def walk(x):
        if isinstance(x, dict):
            return "__proto__" in x or any(walk(v) for v in x.values())
        if isinstance(x, list):
            return any(walk(v) for v in x)
        return False
    return walk(case)


DISCRIMINATORS = {"text_has_non_js_linebreak": _non_js_linebreak, "action_take_max": _take_max, "object_key___proto__": _proto_key,
                  "column0_insert_below_inserted_line": _col0, "text_has_astral_character": _astral}


def finalize(tier, merged):
    return {"node": _node["s"].version if "s" in _node else find_node()}
