"""Shared runner for all property checks.

Contract (see DESIGN.md section 3):
  exit 0  property held on everything explored (KNOWN-FINDING lines may be printed)
  exit 1  + 'VIOLATION property=<ID> replay=<path>' for every bucket not in known_findings.json
  exit 2  harness error / inconclusive (never a violation)

A property module (vp/props/cXX.py) provides:
  ID, LEVEL, RULE, ASSUMPTIONS                strings / list
  budget(tier) -> int                         number of hypothesis cases (whole run)
  strategy(tier) -> hypothesis strategy       yields JSON-serialisable case dicts
  run_case(case) -> Outcome                   never raises for a property failure; records it
  optional: exhaustive(tier, shard, nshards) -> iterator of cases (finite sub-domain, enumerated)
  optional: SHRINK_KEYS (list of keys of the case the shrinker may reduce), valid(case) -> bool
  optional: DISCRIMINATORS {name: fn(case, failure_dict) -> bool}
  optional: ESSENTIAL_LABELS {label: min_fraction} -> exit 2 if generator regressed
  optional: finalize(tier, merged_stats) -> dict of extra coverage keys
"""
import collections
import hashlib
import importlib
import json
import multiprocessing
import os
import re
import sys
import time
import traceback

ROOT = os.path.dirname(os.path.dirname(os.path.abspath(__file__)))
REPO = os.environ.get("VERIF_REPO", "/repo")
NSHARDS = int(os.environ.get("VERIF_SHARDS", "16"))
# Evidence and new replays describe runs against /repo itself. A run pointed at another tree (a scratch worktree with a
# seeded change, VERIF_REPO=<dir>) writes its output next to that tree instead, so committed evidence is never clobbered.
# VERIF_OUT=<dir> (set by tools/multiseed.py) sends both elsewhere, so a sweep over other seeds leaves the committed seed-1 evidence alone.
OUT_ROOT = os.environ.get("VERIF_OUT") or (ROOT if os.path.realpath(REPO) == os.path.realpath("/repo") else os.path.realpath(REPO) + ".vpout")


# ----------------------------------------------------------------------------- basics

def canon(x):
    """Type-strict canonical JSON (True / 1 / 1.0 all differ)."""
    return json.dumps(x, sort_keys=True, ensure_ascii=False, allow_nan=False)


def chash(x):
    return hashlib.sha1(canon(x).encode("utf-8", "surrogatepass")).hexdigest()[:16]


def abbreviate(x, maxstr=60, maxlist=6, depth=6):
    """Shortened copy of a case for evidence samples."""
    if depth == 0:
        return "..."
    if isinstance(x, str):
        return x if len(x) <= maxstr else x[:maxstr] + "...(%d chars)" % len(x)
    if isinstance(x, list):
        out = [abbreviate(v, maxstr, maxlist, depth - 1) for v in x[:maxlist]]
        if len(x) > maxlist:
            out.append("...(%d items)" % len(x))
        return out
    if isinstance(x, dict):
        return {k: abbreviate(v, maxstr, maxlist, depth - 1) for k, v in list(x.items())[:12]}
    return x


class Outcome:
    """What one executed case reports."""
    __slots__ = ("failures", "nontrivial", "labels", "ntkey", "counts")

    def __init__(self):
        self.failures = []      # list of dicts: clause, kind, frame, msg, detail
        self.nontrivial = False
        self.labels = []        # class labels for the distribution table
        self.ntkey = None       # object whose canonical hash identifies the case (default: whole case)
        self.counts = {}        # numeric counters summed over the run

    def fail(self, clause, kind, msg="", frame="", detail=None):
        self.failures.append({"clause": clause, "kind": kind, "frame": frame,
                              "msg": normalise_msg(msg), "detail": detail})

    def fail_exc(self, clause, exc, detail=None):
        self.failures.append({"clause": clause, "kind": type(exc).__name__, "frame": innermost_frame(exc),
                              "msg": normalise_msg(str(exc)), "detail": detail})

    def label(self, *names):
        self.labels.extend(names)

    def count(self, name, n=1):
        self.counts[name] = self.counts.get(name, 0) + n


_num = re.compile(r"\d+")
_hex = re.compile(r"0x[0-9a-fA-F]+")


def normalise_msg(msg):
    msg = str(msg).split("\n")[0]
    msg = _hex.sub("0xN", msg)
    msg = _num.sub("N", msg)
    return msg[:70]


def innermost_frame(exc):
    """module:function of the innermost frame that lies in the nbdime package under test."""
    tb = traceback.extract_tb(exc.__traceback__)
    best = ""
    for fr in tb:
        fn = fr.filename.replace("\\", "/")
        if "/nbdime/" in fn and "/verif/" not in fn:
            mod = fn.split("/nbdime/", 1)[1]
            best = "%s:%s" % (mod[:-3] if mod.endswith(".py") else mod, fr.name)
    if not best and tb:
        fr = tb[-1]
        best = "%s:%s" % (os.path.basename(fr.filename), fr.name)
    return best


def bucket_key(f):
    return "|".join((f["clause"], f["kind"], f["frame"], f["msg"]))


# ----------------------------------------------------------------------------- known findings

def load_known(prop_id):
    path = os.path.join(ROOT, "known_findings.json")
    if not os.path.exists(path):
        return []
    data = json.load(open(path))
    return [e for e in data.get("findings", []) if e.get("property") == prop_id and e.get("status") == "known"]


def match_known(known, mod, case, f):
    for e in known:
        if e.get("clause") and e["clause"] != f["clause"]:
            continue
        if e.get("kind") and e["kind"] != f["kind"]:
            continue
        if e.get("frame") and e["frame"] != f["frame"]:
            continue
        if e.get("message_regex") and not re.search(e["message_regex"], f["msg"]):
            continue
        d = e.get("discriminator")
        if d:
            fn = getattr(mod, "DISCRIMINATORS", {}).get(d)
            if fn is None:
                raise RuntimeError("known finding %s names unknown discriminator %s" % (e.get("id"), d))
            try:
                if not fn(case, f):
                    continue
            except Exception:
                continue
        return e
    return None


# ----------------------------------------------------------------------------- shard worker

def _shard(args):
    prop_id, tier, seed, shard, nshards = args
    try:
        return _shard_inner(prop_id, tier, seed, shard, nshards)
    except BaseException as e:  # harness error: report, never a violation
        return {"harness_error": "shard %d: %s\n%s" % (shard, e, traceback.format_exc())}


def _shard_inner(prop_id, tier, seed, shard, nshards):
    import hypothesis
    from hypothesis import given, settings, HealthCheck, Phase
    mod = importlib.import_module("vp.props." + prop_id.lower())
    known = load_known(prop_id)
    st = {"evaluations": 0, "nt_hashes": set(), "labels": collections.Counter(), "counts": collections.Counter(),
          "buckets": {}, "samples": [], "known_hits": collections.Counter(), "exh_evaluations": 0,
          "hyp_evaluations": 0}

    precheck = getattr(mod, "precheck", None)

    def execute(case, origin):
        if precheck is not None:
            err = precheck(case)
            if err:
                raise RuntimeError("generator produced an input outside the property's domain: %s\n%s"
                                   % (err, json.dumps(abbreviate(case))[:1500]))
        st["evaluations"] += 1
        st[origin] += 1
        out = mod.run_case(case)
        for l in out.labels:
            st["labels"][l] += 1
        for k, v in out.counts.items():
            st["counts"][k] += v
        if out.nontrivial:
            st["labels"]["nontrivial"] += 1
            h = chash(out.ntkey if out.ntkey is not None else case)
            if h not in st["nt_hashes"]:
                st["nt_hashes"].add(h)
                if len(st["samples"]) < 2:
                    st["samples"].append(abbreviate(case))
        for f in out.failures:
            e = match_known(known, mod, case, f)
            if e is not None:
                st["known_hits"][e["id"]] += 1
                continue
            k = bucket_key(f)
            b = st["buckets"].get(k)
            if b is None:
                st["buckets"][k] = {"failure": f, "case": case, "count": 1, "size": len(canon(case))}
            else:
                b["count"] += 1
                sz = len(canon(case))
                if sz < b["size"]:
                    b.update(case=case, size=sz, failure=f)

    # finite sub-domain, enumerated completely (sharded by index)
    exh = getattr(mod, "exhaustive", None)
    if exh is not None:
        for case in exh(tier, shard, nshards):
            execute(case, "exh_evaluations")

    n = int(mod.budget(tier) * float(os.environ.get("VERIF_BUDGET_SCALE", "1")))
    per = (n + nshards - 1) // nshards if n else 0
    if per:
        strat = mod.strategy(tier)

        @hypothesis.seed(seed * 1000 + shard)
        @settings(max_examples=per, phases=[Phase.generate], database=None, deadline=None, derandomize=False,
                  report_multiple_bugs=False,
                  suppress_health_check=[HealthCheck.too_slow, HealthCheck.data_too_large,
                                         HealthCheck.large_base_example])
        @given(strat)
        def prop(case):
            execute(case, "hyp_evaluations")

        prop()
    st["nt_hashes"] = list(st["nt_hashes"])
    st["labels"] = dict(st["labels"])
    st["counts"] = dict(st["counts"])
    st["known_hits"] = dict(st["known_hits"])
    return st


# ----------------------------------------------------------------------------- shrinking (structural ddmin)

def _paths(x, prefix=()):
    """All container positions, outermost first."""
    yield prefix
    if isinstance(x, dict):
        for k in list(x):
            yield from _paths(x[k], prefix + (k,))
    elif isinstance(x, list):
        for i in range(len(x)):
            yield from _paths(x[i], prefix + (i,))


def _get(x, path):
    for p in path:
        x = x[p]
    return x


def _set(x, path, v):
    import copy
    x = copy.deepcopy(x)
    if not path:
        return v
    t = x
    for p in path[:-1]:
        t = t[p]
    t[path[-1]] = v
    return x


def _delete(x, path):
    import copy
    x = copy.deepcopy(x)
    t = x
    for p in path[:-1]:
        t = t[p]
    del t[path[-1]]
    return x


def shrink_case(mod, case, key, max_evals):
    """Structural minimisation: keep a smaller case while the same bucket still fires. Deletions go level by level
    (whole cells before their fields), siblings in reverse order so indexes stay valid; then strings are shortened
    and containers emptied. Bounded by evaluations (and by a per-bucket wall-clock cap for slow cases)."""
    keys = getattr(mod, "SHRINK_KEYS", None)
    if not keys:
        return case, 0
    valid = getattr(mod, "valid", lambda c: True)
    state = {"evals": 0}
    # a second bound for cases that are expensive to evaluate (a diff of two 1000-item lists): minimisation stops after this many
    # seconds per bucket and the case found so far is the replay - a less minimal reproduction, never a different verdict
    deadline = time.time() + float(os.environ.get("VERIF_SHRINK_SECONDS", "60"))

    def fires(c):
        if state["evals"] >= max_evals or time.time() > deadline:
            state["evals"] = max(state["evals"], max_evals)
            return False
        state["evals"] += 1
        try:
            if not valid(c):
                return False
            out = mod.run_case(c)
        except Exception:
            return False
        return any(bucket_key(f) == key for f in out.failures)

    progress = True
    while progress and state["evals"] < max_evals:
        progress = False
        for k in keys:
            if case.get(k) is None:
                continue
            depth = 1
            while state["evals"] < max_evals:
                paths = [p for p in _paths(case[k]) if len(p) == depth]
                if not paths:
                    break
                for p in reversed(paths):
                    try:
                        cand = {**case, k: _delete(case[k], p)}
                    except (KeyError, IndexError, TypeError):
                        continue
                    if fires(cand):
                        case = cand
                        progress = True
                depth += 1
            # simplify leaves
            for p in list(_paths(case[k])):
                if state["evals"] >= max_evals:
                    break
                try:
                    v = _get(case[k], p)
                except (KeyError, IndexError, TypeError):
                    continue
                cands = []
                if isinstance(v, str) and v:
                    lines = v.splitlines(True)
                    if len(lines) > 1:
                        cands += ["".join(lines[:i] + lines[i + 1:]) for i in range(len(lines))]
                    if len(v) > 1:
                        cands += [v[:len(v) // 2], v[len(v) // 2:], v[:-1], v[1:]]
                    else:
                        cands += [""]
                elif isinstance(v, list) and len(v) > 0 and p:
                    cands += [[]]
                elif isinstance(v, dict) and len(v) > 0 and p:
                    cands += [{}]
                for nv in cands:
                    try:
                        cand = {**case, k: _set(case[k], p, nv)}
                    except (KeyError, IndexError, TypeError):
                        continue
                    if fires(cand):
                        case = cand
                        progress = True
                        break
    return case, state["evals"]


# ----------------------------------------------------------------------------- evidence

def write_evidence(mod, tier, seed, wall, merged, violations, extra=None, exit_code=0):
    cov = {
        "evaluations": merged["evaluations"],
        "distinct_nontrivial": merged["distinct_nontrivial"],
        "rule": mod.RULE,
        "samples": merged["samples"][:4] or ["(no non-trivial sample)"],
        "hypothesis_cases": merged.get("hyp_evaluations", 0),
        "enumerated_cases": merged.get("exh_evaluations", 0),
        "class_counts": merged["labels"],
        "counters": merged["counts"],
        "known_finding_hits": merged["known_hits"],
        "unknown_buckets": merged.get("bucket_summary", {}),
        "replays_checked": merged.get("replays_checked", 0),
        "shards": NSHARDS,
        "exhaustive": bool(merged.get("exhaustive", False)),
    }
    if extra:
        cov.update(extra)
    ev = {"property_id": mod.ID, "tier": tier, "seed": seed, "level": mod.LEVEL, "coverage": cov,
          "assumptions": list(getattr(mod, "ASSUMPTIONS", [])), "wall_s": round(wall, 2), "violations": violations}
    os.makedirs(os.path.join(OUT_ROOT, "evidence"), exist_ok=True)
    path = os.path.join(OUT_ROOT, "evidence", mod.ID + ".json")
    with open(path + ".tmp", "w") as f:
        json.dump(ev, f, indent=1, sort_keys=True, ensure_ascii=True)
        f.write("\n")
    os.replace(path + ".tmp", path)


# ----------------------------------------------------------------------------- replay

def replay_file(path):
    data = json.load(open(path))
    prop_id = data["property"]
    mod = importlib.import_module("vp.props." + prop_id.lower())
    known = load_known(prop_id)
    out = mod.run_case(data["case"])
    bad = []
    for f in out.failures:
        e = match_known(known, mod, data["case"], f)
        if e is not None:
            print("KNOWN-FINDING: property=%s %s" % (prop_id, e["description"]))
        else:
            bad.append(f)
    return prop_id, bad


def run_replays(prop_id):
    """Regression tier: every committed replay of this property must pass."""
    d = os.path.join(ROOT, "replays", prop_id)
    res = []
    if os.path.isdir(d):
        for fn in sorted(os.listdir(d)):
            if fn.endswith(".json"):
                p = os.path.join(d, fn)
                _, bad = replay_file(p)
                res.append((os.path.relpath(p, ROOT), bad))
    return res


# ----------------------------------------------------------------------------- main

def main(prop_id, tier, seed):
    t0 = time.time()
    prop_id = prop_id.upper()
    import shutil
    newdir = os.path.join(OUT_ROOT, "replays", "new", prop_id)
    if os.path.isdir(newdir) and os.listdir(newdir):
        # keep the previous run's failing cases for one more generation (they are the only copy of a shrunk failure)
        shutil.rmtree(newdir + ".prev", ignore_errors=True)
        os.rename(newdir, newdir + ".prev")
    shutil.rmtree(newdir, ignore_errors=True)
    ctx = multiprocessing.get_context("fork")
    tasks = [(prop_id, tier, seed, s, NSHARDS) for s in range(NSHARDS)]
    timeout = int(os.environ.get("VERIF_TIMEOUT", "1500" if tier == "quick" else "14000"))
    pool = ctx.Pool(NSHARDS)
    try:
        async_res = pool.map_async(_shard, tasks, chunksize=1)
        try:
            shards = async_res.get(timeout=timeout)
        except multiprocessing.TimeoutError:
            pool.terminate()
            print("INCONCLUSIVE: %s shards exceeded safety timeout of %ds" % (prop_id, timeout))
            return 2
    finally:
        pool.terminate()
        pool.join()

    errs = [s["harness_error"] for s in shards if "harness_error" in s]
    if errs:
        print("HARNESS ERROR in %s:\n%s" % (prop_id, errs[0]))
        return 2

    mod = importlib.import_module("vp.props." + prop_id.lower())
    known = load_known(prop_id)
    merged = {"evaluations": 0, "hyp_evaluations": 0, "exh_evaluations": 0, "labels": collections.Counter(),
              "counts": collections.Counter(), "known_hits": collections.Counter(), "samples": []}
    nt = set()
    buckets = {}
    for s in shards:
        for k in ("evaluations", "hyp_evaluations", "exh_evaluations"):
            merged[k] += s[k]
        merged["labels"].update(s["labels"])
        merged["counts"].update(s["counts"])
        merged["known_hits"].update(s["known_hits"])
        nt.update(s["nt_hashes"])
        merged["samples"].extend(s["samples"][:1])
        for k, b in s["buckets"].items():
            if k not in buckets:
                buckets[k] = b
            else:
                buckets[k]["count"] += b["count"]
                if b["size"] < buckets[k]["size"]:
                    buckets[k].update(case=b["case"], size=b["size"], failure=b["failure"])
    merged["distinct_nontrivial"] = len(nt)
    merged["labels"] = dict(merged["labels"])
    merged["counts"] = dict(merged["counts"])
    merged["known_hits"] = dict(merged["known_hits"])
    merged["exhaustive"] = bool(getattr(mod, "exhaustive", None)) and merged["exh_evaluations"] > 0
    merged["samples"] = merged["samples"][:4]

    # regression tier: committed replays
    violations = []
    replays = run_replays(prop_id)
    merged["replays_checked"] = len(replays)
    for path, bad in replays:
        if bad:
            violations.append((path, bad[0]))

    # minimise and persist every unknown bucket
    max_evals = int(os.environ.get("VERIF_SHRINK_EVALS", str(getattr(mod, "SHRINK_EVALS", 2000 if tier == "quick" else 5000))))
    merged["bucket_summary"] = {}
    for k in sorted(buckets):
        b = buckets[k]
        case, evals = shrink_case(mod, b["case"], k, max_evals)
        h = hashlib.sha1(k.encode()).hexdigest()[:10]
        os.makedirs(os.path.join(OUT_ROOT, "replays", "new", prop_id), exist_ok=True)
        rel = os.path.join("replays", "new", prop_id, h + ".json")
        if OUT_ROOT != ROOT:
            rel = os.path.join(OUT_ROOT, rel)
        with open(os.path.join(OUT_ROOT, rel) if not os.path.isabs(rel) else rel, "w") as f:
            json.dump({"property": prop_id, "bucket": k, "failure": b["failure"], "seed": seed, "tier": tier,
                       "occurrences": b["count"], "shrink_evaluations": evals, "case": case}, f, indent=1,
                      ensure_ascii=True, default=str)
            f.write("\n")
        merged["bucket_summary"][k] = {"count": b["count"], "replay": rel}
        violations.append((rel, b["failure"]))

    for e in known:
        n = merged["known_hits"].get(e["id"], 0)
        print("KNOWN-FINDING: property=%s %s [id=%s hits=%d]" % (prop_id, e["description"], e["id"], n))

    extra = {}
    fin = getattr(mod, "finalize", None)
    if fin is not None:
        extra = fin(tier, merged) or {}
        # a finalizer may run a further campaign (e.g. coverage-guided fuzzing) and hand back violations: [(replay path, failure)]
        for rel, f in extra.pop("violations", []):
            if match_known(known, mod, json.load(open(os.path.join(OUT_ROOT, rel) if not os.path.isabs(rel) else rel))["case"], f) is None:
                violations.append((rel, f))

    # generator regression guard
    rc = 0
    total = max(1, merged["evaluations"])
    for lab, frac in getattr(mod, "ESSENTIAL_LABELS", {}).items():
        got = merged["labels"].get(lab, 0) / total
        if got < frac:
            print("HARNESS ERROR: essential class %r is %.2f%% of cases (< %.2f%%): generator regression"
                  % (lab, 100 * got, 100 * frac))
            rc = 2
    if merged["distinct_nontrivial"] < 2 and not violations:
        print("HARNESS ERROR: fewer than 2 distinct non-trivial cases")
        rc = 2

    write_evidence(mod, tier, seed, time.time() - t0, merged, len(violations), extra)
    for rel, f in violations:
        print("VIOLATION property=%s replay=%s" % (prop_id, rel))
        print("  clause=%s kind=%s frame=%s msg=%s" % (f["clause"], f["kind"], f["frame"], f["msg"]))
        if f.get("detail") is not None:
            print("  detail=%s" % (json.dumps(abbreviate(f["detail"]), default=str)[:600]))
    print("%s %s seed=%d: %d cases (%d enumerated), %d distinct non-trivial, %d unknown buckets, %.1fs" % (
        prop_id, tier, seed, merged["evaluations"], merged["exh_evaluations"], merged["distinct_nontrivial"],
        len(buckets), time.time() - t0))
    if violations:
        return 1
    return rc


def cli(argv):
    if len(argv) >= 2 and argv[0] == "--replay":
        try:
            prop_id, bad = replay_file(argv[1])
        except Exception:
            traceback.print_exc()
            return 2
        for f in bad:
            print("VIOLATION property=%s replay=%s" % (prop_id, argv[1]))
            print("  clause=%s kind=%s frame=%s msg=%s detail=%s" % (
                f["clause"], f["kind"], f["frame"], f["msg"], json.dumps(abbreviate(f.get("detail")), default=str)[:800]))
        if not bad:
            print("replay %s: property %s holds" % (argv[1], prop_id))
        return 1 if bad else 0
    prop_id = argv[0]
    tier = argv[1] if len(argv) > 1 else os.environ.get("VERIF_TIER", "quick")
    if tier not in ("quick", "thorough"):
        tier = "quick"
    seed = int(os.environ.get("VERIF_SEED", "1") or "1")
    try:
        return main(prop_id, tier, seed)
    except Exception:
        traceback.print_exc()
        print("HARNESS ERROR in %s" % prop_id)
        return 2


if __name__ == "__main__":
    sys.exit(cli(sys.argv[1:]))
