"""Shared helpers for the merge properties (C03-C10)."""
import copy

from .nbd import plain, reset_state, to_nb
from .gen import strategies as S


def run_merge(base, local, remote, argsd, want="merge"):
    """Run merge_notebooks (or decide_notebook_merge) on fresh NotebookNode copies.
    Returns (merged_plain | None, decisions_plain | None, exception | None)."""
    from nbdime.merging.notebooks import merge_notebooks, decide_notebook_merge
    reset_state()
    args = S.build_args(argsd)
    with S.renderer(argsd.get("renderer", "git")):
        try:
            if want == "decide":
                dec = decide_notebook_merge(to_nb(base), to_nb(local), to_nb(remote), args=args)
                return None, dec, None
            merged, dec = merge_notebooks(to_nb(base), to_nb(local), to_nb(remote), args)
            return plain(merged), dec, None
        except Exception as e:
            return None, None, e


def two_sided(decisions):
    return any(d.get("local_diff") and d.get("remote_diff") for d in decisions)


def conflicted(decisions):
    return any(d.get("conflict") for d in decisions)


def combo_label(a):
    return "m=%s i=%s o=%s t=%d r=%s" % (a["merge"], a.get("input"), a.get("output"), int(a.get("transients", True)), a.get("renderer", "git"))
