#!/bin/bash
# Offline setup after a fresh restore: make sure hypothesis / jsonschema import for /venv/bin/python.
cd "$(dirname "$0")" || exit 1
PY=/venv/bin/python
need=""
for m in hypothesis jsonschema; do
  PYTHONPATH="$PWD/.deps" $PY -c "import $m" 2>/dev/null || need="$need $m"
done
if [ -n "$need" ]; then
  mkdir -p .deps
  /venv/bin/pip install --no-index --find-links /opt/veriftools/wheels --target .deps $need || exit 1
fi
# optional: atheris (coverage-guided campaign of the thorough tiers of C02 / C11); the quick tier does not need it
PYTHONPATH="$PWD/.deps" $PY -c "import atheris" 2>/dev/null || { mkdir -p .deps; /venv/bin/pip install -q --no-index --find-links /opt/veriftools/wheels --target .deps atheris 2>/dev/null || echo "atheris not installed (thorough fuzz campaign will be skipped)"; }
PYTHONPATH="/repo:$PWD:$PWD/stubs:$PWD/.deps" $PY -c "import hypothesis, jsonschema, nbformat, nbdime; print('setup ok: nbdime', nbdime.__version__, 'hypothesis', hypothesis.__version__)"
